#!/bin/bash
# usage: bounded/run_overlay.sh <file.go.txt> <package dir relative to repo> <test regex> [repo]
# runs a bounded complement as an in-package test injected with -overlay (nothing is written to the repo)
set -u
F="$1"; PKG="$2"; PAT="$3"; REPO="${4:-/repo}"
HERE="$(cd "$(dirname "$0")" && pwd)"
D=$(mktemp -d); trap 'rm -rf $D' EXIT
cp "$HERE/$F" $D/zz_bounded_test.go
printf '{"Replace": {"%s/%s/zz_bounded_test.go": "%s/zz_bounded_test.go"}}\n' "$REPO" "$PKG" "$D" > $D/ov.json
cd $REPO && GOFLAGS=-mod=mod GOPROXY=off GOSUMDB=off GOTOOLCHAIN=local go test -overlay $D/ov.json -vet=off -count=1 -timeout 300s -v -run "$PAT" ./$PKG/ 2>&1 | grep -E "^(--- |ok|FAIL|panic|#|\s+\S+_test.go:[0-9]+:)" | tail -20
