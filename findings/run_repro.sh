#!/bin/bash
# usage: findings/run_repro.sh <test-name-regex> [repo]   -- runs the in-package reproducers against the real code via -overlay
set -u
PAT="${1:-TestRepro_}"; REPO="${2:-/repo}"
HERE="$(cd "$(dirname "$0")" && pwd)"
D=$(mktemp -d); trap 'rm -rf $D' EXIT
declare -A DIRS=( [hrpc]=hrpc [region]=region [region_c05]=region [region_f12]=region [region_f18]=region [gohbase]=. [gohbase_f19]=. )
echo '{"Replace": {' > $D/ov.json; first=1
for p in hrpc region region_c05 region_f12 region_f18 gohbase gohbase_f19; do
  cp $HERE/repro/repro_${p}_test.go.txt $D/zz_repro_${p}_test.go
  [ $first = 1 ] || echo ',' >> $D/ov.json; first=0
  echo "\"$REPO/${DIRS[$p]}/zz_repro_${p}_test.go\": \"$D/zz_repro_${p}_test.go\"" >> $D/ov.json
done
echo '}}' >> $D/ov.json
cd $REPO && GOFLAGS=-mod=mod GOPROXY=off GOSUMDB=off GOTOOLCHAIN=local go test -overlay $D/ov.json -vet=off -count=1 -timeout 120s -run "$PAT" . ./hrpc/ ./region/ 2>&1 | grep -v "no tests to run" | tail -30
