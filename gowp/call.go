package main

// Calls: builtins, conversions, closures (inlined), modular calls against contracts, abstracted calls.

import (
	"fmt"
	"go/ast"
	"go/token"
	"go/types"
	"os"
	"path/filepath"
	"strings"
)

func unparen(e ast.Expr) ast.Expr {
	for {
		p, ok := e.(*ast.ParenExpr)
		if !ok {
			return e
		}
		e = p.X
	}
}

func funcKey(fn *types.Func) string {
	sig := fn.Type().(*types.Signature)
	pkg := "builtin"
	if fn.Pkg() != nil {
		pkg = fn.Pkg().Name()
	}
	recv := sig.Recv()
	if recv == nil {
		return pkg + "." + fn.Name()
	}
	t := recv.Type()
	ptr := false
	if p, ok := t.(*types.Pointer); ok {
		t = p.Elem()
		ptr = true
	}
	name := "?"
	switch n := t.(type) {
	case *types.Named:
		name = n.Obj().Name()
		if n.Obj().Pkg() != nil {
			pkg = n.Obj().Pkg().Name()
		}
	case *types.Alias:
		name = n.Obj().Name()
	default:
		name = sanitize(typeKey(t))
	}
	if ptr {
		return fmt.Sprintf("%s.(*%s).%s", pkg, name, fn.Name())
	}
	return fmt.Sprintf("%s.%s.%s", pkg, name, fn.Name())
}

func (c *Ctx) evalCall(x *ast.CallExpr, s *State) Value {
	c.curPos = x.Pos()
	fun := unparen(x.Fun)
	if tv, ok := c.info().Types[fun]; ok && tv.IsType() {
		return c.evalConversion(x, s)
	}
	if id, ok := fun.(*ast.Ident); ok {
		if b, ok := c.info().Uses[id].(*types.Builtin); ok {
			c.atClauses(s, fmt.Sprintf("call %s#%d", b.Name(), c.callOrd[x]), x.Pos())
			return c.evalBuiltin(b.Name(), x, s)
		}
	}
	return c.evalCallWithArgs(x, s, nil)
}

func (c *Ctx) evalConversion(x *ast.CallExpr, s *State) Value {
	to := c.typeOf(x.Fun)
	from := c.typeOf(x.Args[0])
	v := c.eval(x.Args[0], s)
	return c.convert(s, v, from, to, x)
}

func (c *Ctx) convert(s *State, v Value, from, to types.Type, at ast.Node) Value {
	if _, ok := to.Underlying().(*types.Interface); ok {
		return c.convertTo(s, v, from, to, at)
	}
	tb, tIsBasic := to.Underlying().(*types.Basic)
	_, fIsBasic := from.Underlying().(*types.Basic)
	if bits, signed, ok := intRange(to); ok {
		if _, _, fok := intRange(from); fok || (fIsBasic && from.Underlying().(*types.Basic).Info()&types.IsInteger != 0) {
			t := asInt(v)
			fb, fs, _ := intRange(from)
			// widening without sign change needs no wrap
			if fok && fs == signed && fb <= bits {
				return IntV{t}
			}
			if fok && !fs && signed && fb < bits {
				return IntV{t}
			}
			if signed {
				return IntV{wrapS(t, bits)}
			}
			return IntV{wrapU(t, bits)}
		}
	}
	if tIsBasic && tb.Info()&types.IsString != 0 {
		if sl, ok := v.(SliceV); ok { // string(bytes)
			return c.bytesToString(s, sl)
		}
		if isStringType(from) {
			return v
		}
	}
	if ts, ok := to.Underlying().(*types.Slice); ok {
		if isStringType(from) { // []byte(str)
			return c.stringToBytes(s, asInt(v), ts.Elem())
		}
		return v
	}
	if fIsBasic && tIsBasic {
		return v
	}
	return v
}

func (c *Ctx) bytesToString(s *State, sl SliceV) Value {
	c.useStr()
	c.declareFun("gs.of", 4, sInt) // string value of (memory version array, off, len) -- keyed by content via axioms below
	m := c.heapGet(s, "M.byte", sA2)
	r := c.fresh("str", sInt)
	arr := c.fresh("strsrc", sA1)
	s.assume(eq(arr, sel(m, sl.Ref)))
	s.assume(eq(app("gs.len", r), sl.Len))
	s.assume(forall([]string{"k"}, "(! "+implies(and(le("0", "k"), lt("k", sl.Len)), eq(app("gs.at", r, "k"), sel(arr, c.elemIndex(sl.Off, "k"))))+" :pattern ((gs.at "+r+" k)))"))
	return IntV{r}
}

func (c *Ctx) stringToBytes(s *State, str string, elem types.Type) Value {
	c.useStr()
	n := app("gs.len", str)
	sl := c.allocSlice(s, elem, n, n, false)
	m := c.heapGet(s, memKey(elem), sA2)
	arr := sel(m, sl.Ref)
	s.assume(forall([]string{"k"}, "(! "+implies(and(le("0", "k"), lt("k", n)), eq(sel(arr, "k"), app("gs.at", str, "k")))+" :pattern ((select "+arr+" k)))"))
	s.assume(le(n, maxLen))
	return sl
}

func (c *Ctx) evalBuiltin(name string, x *ast.CallExpr, s *State) Value {
	switch name {
	case "len", "cap":
		t := c.typeOf(x.Args[0])
		v := c.eval(x.Args[0], s)
		switch u := t.Underlying().(type) {
		case *types.Array:
			return IntV{num(u.Len())}
		case *types.Slice:
			if name == "len" {
				return IntV{v.(SliceV).Len}
			}
			return IntV{v.(SliceV).Cap}
		case *types.Basic:
			c.useStr()
			r := app("gs.len", asInt(v))
			s.assume(and(le("0", r), le(r, maxLen)))
			return IntV{r}
		case *types.Map:
			return IntV{c.mapLen(s, asInt(v), u)}
		case *types.Chan:
			c.declareFun("chan."+name, 1, sInt)
			r := app("chan."+name, asInt(v))
			s.assume(le("0", r))
			return IntV{r}
		}
	case "panic":
		c.eval(x.Args[0], s)
		if c.checkPanics {
			tags := c.panicTags
			c.oblige(s, "panic", c.text(x), x.Pos(), "false", tags)
		}
		return NoneV{}
	case "make":
		t := c.typeOf(x.Args[0])
		switch u := t.Underlying().(type) {
		case *types.Slice:
			n := asInt(c.eval(x.Args[1], s))
			cp := n
			if len(x.Args) > 2 {
				cp = asInt(c.eval(x.Args[2], s))
			}
			if c.checkPanics {
				c.oblige(s, "make", c.text(x), x.Pos(), and(le("0", n), le(n, cp), le(cp, "281474976710656")), c.panicTags)
			}
			c.atClauses(s, fmt.Sprintf("make %d", c.callOrd[x]), x.Pos())
			return c.allocSlice(s, u.Elem(), n, cp, true)
		case *types.Map:
			for _, a := range x.Args[1:] {
				c.eval(a, s)
			}
			return c.mapNew(s, u)
		case *types.Chan:
			capT := "0"
			for _, a := range x.Args[1:] {
				capT = asInt(c.eval(a, s))
			}
			r := c.fresh("chan", sInt)
			s.assume(lt("0", r))
			c.freshRefFacts(s, r)
			s.assume(eq(sel(c.heapGet(s, "X.closed", sA1), r), "0")) // a new channel is open
			// its buffer size is fixed at creation (ghost chancap[ch]; contracts: ghostat("chancap", ch)). Entered as a
			// fact about the entry-state map: the channel is new, nothing known about that map mentions it
			c.eng.setHeapSort("X.chancap", sA1)
			s.assume(eq(sel(c.heapGet(s, "X.chancap", sA1), r), capT))
			return IntV{r}
		}
	case "new":
		t := c.typeOf(x.Args[0])
		ref := c.fresh("obj", sInt)
		s.assume(lt("0", ref))
		c.freshRefFacts(s, ref)
		c.storePtr(s, ref, t, zeroValue(t))
		return IntV{ref}
	case "append":
		return c.evalAppend(x, s)
	case "copy":
		return c.evalCopy(x, s)
	case "delete":
		m := asInt(c.eval(x.Args[0], s))
		k := c.eval(x.Args[1], s)
		c.mapDelete(s, m, c.typeOf(x.Args[0]).Underlying().(*types.Map), k)
		return NoneV{}
	case "close":
		ch := c.eval(x.Args[0], s)
		c.eng.onClose(c, s, x, ch)
		return NoneV{}
	case "min", "max":
		a := asInt(c.eval(x.Args[0], s))
		for _, e := range x.Args[1:] {
			b := asInt(c.eval(e, s))
			if name == "min" {
				a = ite(le(a, b), a, b)
			} else {
				a = ite(ge(a, b), a, b)
			}
		}
		return IntV{a}
	case "print", "println":
		for _, a := range x.Args {
			c.eval(a, s)
		}
		return NoneV{}
	}
	for _, a := range x.Args {
		c.eval(a, s)
	}
	c.abstractNote(x.Pos(), "builtin "+name)
	return c.freshValue(s, "abs", c.typeOf(x))
}

func (c *Ctx) evalAppend(x *ast.CallExpr, s *State) Value {
	st := c.typeOf(x).Underlying().(*types.Slice)
	elem := st.Elem()
	base := c.eval(x.Args[0], s).(SliceV)
	type piece struct {
		single []string // leaf terms of one element
		sl     *SliceV
		str    string
		n      string
	}
	var pieces []piece
	if x.Ellipsis.IsValid() {
		at := c.typeOf(x.Args[1])
		av := c.eval(x.Args[1], s)
		if isStringType(at) {
			c.useStr()
			pieces = append(pieces, piece{str: asInt(av), n: app("gs.len", asInt(av))})
		} else {
			sv := av.(SliceV)
			pieces = append(pieces, piece{sl: &sv, n: sv.Len})
		}
	} else {
		for _, a := range x.Args[1:] {
			v := c.evalElt(a, s, elem)
			pieces = append(pieces, piece{single: flatten(v, elem), n: "1"})
		}
	}
	total := "0"
	for _, p := range pieces {
		total = add(total, p.n)
	}
	// A base cut with an explicit high bound (x[:k]) whose capacity has room: Go writes the new elements into the
	// shared backing array. Decided with the solver on the current path: always fits / may fit / never fits.
	if base.Tail && c.dry == 0 {
		fits := le(add(base.Len, total), base.Cap)
		switch {
		case c.provableNow(s, fits):
			c.note("append to a re-sliced base that fits its capacity is modelled in place (writes through to the shared array)")
			c.noteWrite(s, memKey(elem), base.Ref)
			lo := add(base.Off, base.Len)
			for li, l := range leaves(elem) {
				key := memKey(elem) + l
				m := c.heapGet(s, key, sA2)
				cur := sel(m, base.Ref)
				pos := lo
				for _, p := range pieces {
					switch {
					case p.single != nil:
						cur = store(cur, pos, p.single[li])
					case p.sl != nil:
						src := sel(m, p.sl.Ref)
						na := c.fresh("apparr", sA1)
						s.assume(forall([]string{"k"}, "(! "+ite(and(le(pos, "k"), lt("k", add(pos, p.n))), eq(sel(na, "k"), sel(src, add(p.sl.Off, sub("k", pos)))), eq(sel(na, "k"), sel(cur, "k")))+" :pattern ((select "+na+" k)))"))
						cur = na
					default:
						na := c.fresh("apparr", sA1)
						s.assume(forall([]string{"k"}, "(! "+ite(and(le(pos, "k"), lt("k", add(pos, p.n))), eq(sel(na, "k"), app("gs.at", p.str, sub("k", pos))), eq(sel(na, "k"), sel(cur, "k")))+" :pattern ((select "+na+" k)))"))
						cur = na
					}
					pos = add(pos, p.n)
				}
				c.heapSet(s, key, sA2, store(m, base.Ref, cur))
			}
			nl := c.nameValue(s, "applen", IntV{add(base.Len, total)}).(IntV).T
			return SliceV{base.Ref, base.Off, nl, base.Cap, true}
		case !c.provableNow(s, not(fits)):
			// may fit: the elements of the shared array just beyond the base become unknown (and count as written);
			// the result itself is modelled as a copy
			c.note("append to a re-sliced base that may fit its capacity: the shared array's elements beyond the base are havocked; the result is modelled as a copy")
			c.noteWrite(s, memKey(elem), base.Ref)
			lo := add(base.Off, base.Len)
			for _, l := range leaves(elem) {
				key := memKey(elem) + l
				m := c.heapGet(s, key, sA2)
				old := sel(m, base.Ref)
				na := c.fresh("apphavoc", sA1)
				s.assume(forall([]string{"k"}, "(! "+implies(not(and(le(lo, "k"), lt("k", add(lo, total)))), eq(sel(na, "k"), sel(old, "k")))+" :pattern ((select "+na+" k)))"))
				c.heapSet(s, key, sA2, store(m, base.Ref, na))
			}
		}
	}
	c.note("append yields a fresh backing array (the old slice value is assumed dead or not written through afterwards)")
	// new array
	ref := c.fresh("app", sInt)
	s.assume(lt("0", ref))
	c.freshRefFacts(s, ref)
	newLen := base.Len
	for li, l := range leaves(elem) {
		key := memKey(elem) + l
		m := c.heapGet(s, key, sA2)
		old := sel(m, base.Ref)
		arr := c.fresh("apparr", sA1)
		// prefix copied
		s.assume(forall([]string{"k"}, "(! "+implies(and(le("0", "k"), lt("k", base.Len)), eq(sel(arr, "k"), sel(old, c.elemIndex(base.Off, "k"))))+" :pattern ((select "+arr+" k)))"))
		cur := arr
		pos := base.Len
		for _, p := range pieces {
			switch {
			case p.single != nil:
				cur = store(cur, pos, p.single[li])
			case p.sl != nil:
				src := sel(m, p.sl.Ref)
				na := c.fresh("apparr", sA1)
				s.assume(forall([]string{"k"}, "(! "+ite(and(le(pos, "k"), lt("k", add(pos, p.n))), eq(sel(na, "k"), sel(src, c.elemIndex(p.sl.Off, sub("k", pos)))), eq(sel(na, "k"), sel(cur, "k")))+" :pattern ((select "+na+" k)))"))
				cur = na
			default:
				na := c.fresh("apparr", sA1)
				s.assume(forall([]string{"k"}, "(! "+ite(and(le(pos, "k"), lt("k", add(pos, p.n))), eq(sel(na, "k"), app("gs.at", p.str, sub("k", pos))), eq(sel(na, "k"), sel(cur, "k")))+" :pattern ((select "+na+" k)))"))
				cur = na
			}
			pos = add(pos, p.n)
		}
		newLen = pos
		c.heapSet(s, key, sA2, store(m, ref, cur))
	}
	nl := c.nameValue(s, "applen", IntV{newLen}).(IntV).T
	cp := c.fresh("appcap", sInt)
	s.assume(and(le(nl, cp), le(cp, maxLen)))
	// (language spec: append re-uses the underlying array when the capacity suffices - the result then has the capacity
	// of its first operand; modelled as a copy it still has that capacity)
	s.assume(implies(le(nl, base.Cap), eq(cp, base.Cap)))
	c.note("append: the resulting length is assumed to stay below 2^47")
	return SliceV{ref, "0", nl, cp, false}
}

// provableNow: is goal valid under the assumptions of the current path? (one quick synchronous solver call; used to
// choose between sound models of a statement, never to discharge an obligation)
func (c *Ctx) provableNow(s *State, goal string) bool {
	if goal == "true" {
		return true
	}
	if goal == "false" {
		return false
	}
	o := &Oblig{Name: c.con.Key + "/model-choice", Kind: "probe", Func: c.con.Key, Assumes: s.assumes, Goal: goal, decls: c}
	text := c.eng.smtText(o)
	base := c.eng.outBase
	if base == "" {
		base = c.eng.verif
	}
	dir := filepath.Join(base, "out", "probe")
	os.MkdirAll(dir, 0o755)
	f, err := os.CreateTemp(dir, "q*.smt2")
	if err != nil {
		return false
	}
	f.WriteString(text)
	f.Close()
	defer os.Remove(f.Name())
	r := runSolver(solvers[0], f.Name(), 3, "")
	return r.verdict == "unsat"
}

func (c *Ctx) evalCopy(x *ast.CallExpr, s *State) Value {
	dst := c.eval(x.Args[0], s).(SliceV)
	elem := c.typeOf(x.Args[0]).Underlying().(*types.Slice).Elem()
	st := c.typeOf(x.Args[1])
	sv := c.eval(x.Args[1], s)
	var n string
	if isStringType(st) {
		c.useStr()
		sl := app("gs.len", asInt(sv))
		n = ite(le(dst.Len, sl), dst.Len, sl)
	} else {
		n = ite(le(dst.Len, sv.(SliceV).Len), dst.Len, sv.(SliceV).Len)
	}
	n = c.nameValue(s, "copyn", IntV{n}).(IntV).T
	c.noteWrite(s, memKey(elem), dst.Ref)
	for _, l := range leaves(elem) {
		key := memKey(elem) + l
		m := c.heapGet(s, key, sA2)
		old := sel(m, dst.Ref)
		na := c.fresh("cparr", sA1)
		var srcAt string
		if isStringType(st) {
			srcAt = app("gs.at", asInt(sv), sub("k", dst.Off))
		} else {
			src := sv.(SliceV)
			srcAt = sel(sel(m, src.Ref), c.elemIndex(src.Off, sub("k", dst.Off)))
		}
		s.assume(forall([]string{"k"}, "(! "+ite(and(le(dst.Off, "k"), lt("k", add(dst.Off, n))), eq(sel(na, "k"), srcAt), eq(sel(na, "k"), sel(old, "k")))+" :pattern ((select "+na+" k)))"))
		c.heapSet(s, key, sA2, store(m, dst.Ref, na))
	}
	return IntV{n}
}

// ---------------------------------------------------------------------------------------------

// evalCallWithArgs evaluates a (non-builtin, non-conversion) call. pre holds already evaluated args (defer).
func (c *Ctx) evalCallWithArgs(x *ast.CallExpr, s *State, pre []Value) Value {
	fun := unparen(x.Fun)
	evalArgs := func() []Value {
		if pre != nil {
			return pre
		}
		sig, _ := c.typeOf(x.Fun).Underlying().(*types.Signature)
		var out []Value
		for i, a := range x.Args {
			v := c.eval(a, s)
			if sig != nil {
				var pt types.Type
				if sig.Variadic() && i >= sig.Params().Len()-1 {
					if !x.Ellipsis.IsValid() {
						pt = sig.Params().At(sig.Params().Len() - 1).Type().(*types.Slice).Elem()
					}
				} else if i < sig.Params().Len() {
					pt = sig.Params().At(i).Type()
				}
				if pt != nil {
					if tup, isTup := c.info().TypeOf(a).(*types.Tuple); !isTup || tup == nil {
						v = c.convertTo(s, v, c.typeOf(a), pt, a)
					}
				}
			}
			out = append(out, v)
		}
		if len(out) == 1 {
			if tv, ok := out[0].(TupleV); ok { // f(g()) with multi-value g
				return tv
			}
		}
		return out
	}
	// function literal called in place
	if lit, ok := fun.(*ast.FuncLit); ok {
		return c.inlineLit(lit, evalArgs(), s, x)
	}
	var callee *types.Func
	var recv Value
	var recvT types.Type
	switch f := fun.(type) {
	case *ast.Ident:
		switch o := c.info().Uses[f].(type) {
		case *types.Func:
			callee = o
		case *types.Var:
			fv := c.readVar(s, o, f.Pos())
			if fvv, ok := fv.(FuncV); ok {
				if fvv.Lit != nil {
					return c.inlineLit(fvv.Lit, evalArgs(), s, x)
				}
				if fvv.Decl != nil {
					callee, recv = fvv.Decl, fvv.Recv
				}
			}
			if callee == nil {
				return c.callFuncValue(x, s, o.Name(), evalArgs())
			}
		}
	case *ast.SelectorExpr:
		if sel, ok := c.info().Selections[f]; ok {
			switch sel.Kind() {
			case types.MethodVal:
				callee = sel.Obj().(*types.Func)
				base := c.eval(f.X, s)
				if c.deferRecv != nil && pre != nil {
					base = c.deferRecv // a deferred method call runs on the receiver it had at the defer statement
					c.deferRecv = nil
				}
				bt := c.typeOf(f.X)
				recv, recvT = c.methodRecv(s, base, bt, sel, f)
			case types.FieldVal:
				// call of a func-typed field; at-clauses of the call may name its arguments (arg0, ...)
				c.eval(f, s)
				fargs := evalArgs()
				if sig, ok := c.typeOf(f).Underlying().(*types.Signature); ok {
					c.atArgs = map[string]bound{}
					for i, a := range fargs {
						if i < sig.Params().Len() && !(sig.Variadic() && i == sig.Params().Len()-1) {
							c.atArgs[fmt.Sprintf("arg%d", i)] = bound{a, sig.Params().At(i).Type()}
						}
					}
					c.atClauses(s, fmt.Sprintf("call %s#%d", calleeShortName(x), c.callOrd[x]), x.Pos())
					c.atArgs = nil
				}
				return c.callFuncValue(x, s, f.Sel.Name, fargs)
			}
		} else if o, ok := c.info().Uses[f.Sel].(*types.Func); ok {
			callee = o
		} else if _, ok := c.info().Uses[f.Sel].(*types.Var); ok {
			c.eval(f, s)
			return c.callFuncValue(x, s, f.Sel.Name, evalArgs())
		}
	case *ast.IndexExpr: // generic instantiation f[T](...)
		if id, ok := unparen(f.X).(*ast.Ident); ok {
			if o, ok := c.info().Uses[id].(*types.Func); ok {
				callee = o
			}
		}
	}
	if callee == nil {
		c.eval(x.Fun, s)
		return c.callFuncValue(x, s, "fn", evalArgs())
	}
	_ = recvT
	args := evalArgs()
	// at-clauses of a call may name the evaluated arguments arg0, arg1, ... (non-variadic positions)
	c.atArgs = map[string]bound{}
	if sig, ok := callee.Type().(*types.Signature); ok {
		for i, a := range args {
			if i < sig.Params().Len() && !(sig.Variadic() && i == sig.Params().Len()-1) {
				c.atArgs[fmt.Sprintf("arg%d", i)] = bound{a, sig.Params().At(i).Type()}
			}
		}
	}
	if recv != nil && recvT != nil {
		c.atArgs["recv"] = bound{recv, recvT} // the receiver the method is called on
	}
	c.atClauses(s, fmt.Sprintf("call %s#%d", calleeShortName(x), c.callOrd[x]), x.Pos())
	c.atArgs = nil
	for _, nc := range c.con.NoCall {
		if nc == calleeShortName(x) && c.dry == 0 {
			c.curTags = c.con.NoCallTags
			c.oblige(s, "no-call:"+nc, "this function does not call "+nc+" ("+c.con.NoCallWhy+")", x.Pos(), "false", c.con.NoCallTags)
		}
	}
	for _, so := range c.con.SpawnOnly {
		if so == calleeShortName(x) && c.dry == 0 {
			c.curTags = c.con.SpawnOnlyTags
			c.oblige(s, "spawn-only:"+so, "this function does not wait for "+so+" ("+c.con.SpawnOnlyWhy+"): it is started with `go`, never called", x.Pos(), "false", c.con.SpawnOnlyTags)
		}
	}
	res := c.callFunc(x, s, callee, recv, args)
	// `at after f#n ...`: clauses evaluated right after the call returns; its results are res0, res1, ...
	if after := fmt.Sprintf("after %s#%d", calleeShortName(x), c.callOrd[x]); len(c.con.Ats[after]) > 0 {
		c.atArgs = map[string]bound{}
		if sig, ok := callee.Type().(*types.Signature); ok {
			switch rv := res.(type) {
			case TupleV:
				for i, v := range rv {
					if i < sig.Results().Len() {
						c.atArgs[fmt.Sprintf("res%d", i)] = bound{v, sig.Results().At(i).Type()}
					}
				}
			case NoneV:
			default:
				if sig.Results().Len() == 1 {
					c.atArgs["res0"] = bound{res, sig.Results().At(0).Type()}
				}
			}
		}
		c.atClauses(s, after, x.Pos())
		c.atArgs = nil
	}
	return res
}

// methodRecv computes the receiver value for a method call through a selection (embedded fields, auto & / *).
func (c *Ctx) methodRecv(s *State, base Value, bt types.Type, sel *types.Selection, at *ast.SelectorExpr) (Value, types.Type) {
	idx := sel.Index()
	path := idx[:len(idx)-1]
	fn := sel.Obj().(*types.Func)
	sig := fn.Type().(*types.Signature)
	rt := sig.Recv().Type()
	if _, isIface := bt.Underlying().(*types.Interface); isIface && len(path) == 0 {
		return base, bt
	}
	ref, st, sv := c.walkPathNoCheck(s, base, bt, path, at)
	_, wantPtr := rt.(*types.Pointer)
	if _, isIface := st.Underlying().(*types.Interface); isIface {
		if ref != "" {
			panic("interface in heap path")
		}
		return sv, st
	}
	if wantPtr {
		if ref != "" {
			return IntV{ref}, rt
		}
		// addressable local struct: boxed variables are handled by addrOf
		if id, ok := unparen(at.X).(*ast.Ident); ok && len(path) == 0 {
			return c.addrOf(id, s), rt
		}
		// x.f.M() with f a struct field of a heap object and M a pointer-receiver method: the sub-object
		if se, ok := unparen(at.X).(*ast.SelectorExpr); ok && len(path) == 0 {
			if fsel, ok := c.info().Selections[se]; ok && fsel.Kind() == types.FieldVal {
				bv := c.eval(se.X, s)
				idx := fsel.Index()
				href, hst, _ := c.walkPath(s, bv, c.typeOf(se.X), idx[:len(idx)-1], se)
				if href != "" {
					f := hst.Underlying().(*types.Struct).Field(idx[len(idx)-1])
					if c.isStructByValueField(f) {
						return IntV{c.subObject(s, href, hst, f)}, rt
					}
				}
			}
		}
		c.abstractNote(at.Pos(), "pointer receiver of by-value struct")
		return IntV{c.fresh("recv", sInt)}, rt
	}
	// value receiver
	if ref != "" {
		if _, isStruct := st.Underlying().(*types.Struct); isStruct {
			return c.loadPtr(s, ref, st), rt
		}
		return c.loadPtr(s, ref, st), rt
	}
	return sv, rt
}

// walkPathNoCheck is walkPath but the final object may be a non-struct named type.
func (c *Ctx) walkPathNoCheck(s *State, v Value, t types.Type, path []int, at ast.Node) (string, types.Type, Value) {
	if len(path) == 0 {
		if p, ok := t.Underlying().(*types.Pointer); ok {
			return asInt(v), p.Elem(), nil
		}
		return "", t, v
	}
	return c.walkPath(s, v, t, path, at)
}

// callFuncValue: call through a function value we cannot resolve (parameter, field): abstract.
func (c *Ctx) callFuncValue(x *ast.CallExpr, s *State, name string, args []Value) Value {
	key := c.con.Key + "$" + name
	if k := c.eng.contracts[key]; k != nil {
		sig := c.typeOf(x.Fun).Underlying().(*types.Signature)
		return c.applyContract(x, s, k, sig, nil, NoneV{}, args, key)
	}
	c.abstractNote(x.Pos(), "call through function value "+name)
	c.havocAll(s)
	c.frameEffect(s, "all")
	return c.freshResults(s, x, name)
}

func (c *Ctx) freshResults(s *State, x *ast.CallExpr, name string) Value {
	t := c.info().TypeOf(x)
	if t == nil {
		return NoneV{}
	}
	if tup, ok := t.(*types.Tuple); ok {
		if tup.Len() == 0 {
			return NoneV{}
		}
		return c.freshValue(s, name, tup)
	}
	return c.freshValue(s, name, t)
}

var noEffectPkgs = map[string]bool{
	"fmt": true, "errors": true, "log": true, "slog": true, "strconv": true, "time": true, "strings": true, "bytes": true,
	"prometheus": true, "trace": true, "otel": true, "attribute": true, "codes": true, "observability": true, "math": true,
	"context": true, "sync": true, "atomic": true, "binary": true, "sort": true, "unsafe": true, "os": true, "runtime": true,
	"debug": true, "rand": true, "json": true, "base64": true, "hex": true, "unicode": true, "utf8": true, "big": true, "io": true,
	"protowire": true, "proto": true, "net": true, "bufio": true, "snappy": true,
}

func (c *Ctx) callFunc(x *ast.CallExpr, s *State, callee *types.Func, recv Value, args []Value) Value {
	key := funcKey(callee)
	sig := callee.Type().(*types.Signature)
	if sig.TypeParams() != nil && sig.TypeParams().Len() > 0 {
		if isig, ok := c.typeOf(x.Fun).(*types.Signature); ok {
			sig = isig // instantiated signature at this call
		}
	}
	if v, ok := c.specialCall(x, s, callee, key, recv, args); ok {
		return v
	}
	if k := c.eng.contracts[key]; k != nil {
		if k.Inline {
			if v, ok := c.inlineFunc(x, s, callee, recv, args); ok {
				return v
			}
		}
		return c.applyContract(x, s, k, sig, callee, recv, args, key)
	}
	// no contract
	inRepo := callee.Pkg() != nil && strings.HasPrefix(callee.Pkg().Path(), c.eng.modPath)
	pkgName := ""
	if callee.Pkg() != nil {
		pkgName = callee.Pkg().Name()
	}
	switch {
	case inRepo && callee.Pkg().Name() == "pb":
		// generated protobuf code: getters handled in specialCall; the rest does not touch tracked state
		c.note("generated protobuf helpers (Enum, String, Reset, ...) do not modify tracked state")
	case inRepo:
		if c.eng.autoInline(callee) {
			if v, ok := c.inlineFunc(x, s, callee, recv, args); ok {
				return v
			}
		}
		c.abstractNote(x.Pos(), "call "+key+" (no contract): results and the whole heap havocked")
		c.havocAll(s)
		c.frameEffect(s, "all")
	case noEffectPkgs[pkgName]:
		c.note("calls into " + pkgName + " without a contract: results arbitrary, tracked state unchanged")
		c.havocArgs(s, callee, args, sig, pkgName)
	default:
		c.abstractNote(x.Pos(), "call "+key+" (external, no contract): results arbitrary; objects passed by pointer/slice havocked")
		c.havocArgs(s, callee, args, sig, "")
	}
	c.calleesUsed["uncontracted:"+key] = true
	return c.freshResults(s, x, callee.Name())
}

// havocArgs havocs what an external callee can reach through pointer / slice arguments.
func (c *Ctx) havocArgs(s *State, callee *types.Func, args []Value, sig *types.Signature, pkgName string) {
	switch pkgName {
	case "fmt", "errors", "log", "slog", "strconv", "time", "strings", "bytes", "prometheus", "trace", "otel", "attribute", "codes",
		"observability", "math", "context", "sync", "atomic", "sort", "runtime", "debug", "unicode", "utf8":
		return // read-only w.r.t. their arguments (as far as tracked state goes)
	}
	for i, a := range args {
		var pt types.Type
		if i < sig.Params().Len() {
			pt = sig.Params().At(i).Type()
		} else if sig.Variadic() {
			pt = sig.Params().At(sig.Params().Len() - 1).Type()
		}
		if pt == nil {
			continue
		}
		switch u := pt.Underlying().(type) {
		case *types.Slice:
			if sv, ok := a.(SliceV); ok {
				c.havocSliceContents(s, sv, u.Elem())
			}
		case *types.Pointer:
			c.havocObject(s, asInt(a), u.Elem())
		}
	}
}

func (c *Ctx) havocSliceContents(s *State, sv SliceV, elem types.Type) {
	c.noteWrite(s, memKey(elem), sv.Ref)
	for _, l := range leaves(elem) {
		key := memKey(elem) + l
		m := c.heapGet(s, key, sA2)
		h := c.fresh("hav", sA1)
		if key == "M.byte" || key == "M.uint8" {
			c.byteArrs[h] = true
		}
		// only the elements the slice value covers may change
		old := sel(m, sv.Ref)
		s.assume(forall([]string{"k"}, "(! "+implies(not(and(le(sv.Off, "k"), lt("k", add(sv.Off, sv.Len)))), eq(sel(h, "k"), sel(old, "k")))+" :pattern ((select "+h+" k)))"))
		c.heapSet(s, key, sA2, store(m, sv.Ref, h))
	}
}

func (c *Ctx) havocObject(s *State, ref string, t types.Type) {
	st, ok := t.Underlying().(*types.Struct)
	if !ok {
		c.storePtr(s, ref, t, c.freshValue(s, "hav", t))
		return
	}
	for i := 0; i < st.NumFields(); i++ {
		f := st.Field(i)
		c.writeField(s, ref, t, f, c.freshValue(s, "hav."+f.Name(), f.Type()))
	}
}

// inlineLit executes a function literal in place.
func (c *Ctx) inlineLit(lit *ast.FuncLit, args []Value, s *State, at *ast.CallExpr) Value {
	sig := c.typeOf(lit).(*types.Signature)
	return c.inlineBody(lit.Type, lit.Body, sig, nil, nil, args, s, lit)
}

func (c *Ctx) inlineBody(ft *ast.FuncType, body *ast.BlockStmt, sig *types.Signature, recvVar *types.Var, recv Value, args []Value, s *State, lit *ast.FuncLit) Value {
	if recvVar != nil {
		c.declVar(s, recvVar, recv)
	}
	// bind params
	i := 0
	if ft.Params != nil {
		for _, fld := range ft.Params.List {
			for _, n := range fld.Names {
				if v, ok := c.info().Defs[n].(*types.Var); ok {
					if sig.Variadic() && i == sig.Params().Len()-1 && len(args) != sig.Params().Len() {
						c.abstractNote(body.Pos(), "variadic packing in inlined call")
						c.declVar(s, v, c.freshValue(s, v.Name(), v.Type()))
					} else if i < len(args) {
						c.declVar(s, v, args[i])
					}
				}
				i++
			}
			if len(fld.Names) == 0 {
				i++
			}
		}
	}
	var results []*types.Var
	if ft.Results != nil {
		for _, fld := range ft.Results.List {
			if len(fld.Names) == 0 {
				results = append(results, types.NewVar(fld.Pos(), c.pkg.Types, fmt.Sprintf("ret%d", len(results)), c.typeOf(fld.Type)))
				continue
			}
			for _, n := range fld.Names {
				v := c.info().Defs[n].(*types.Var)
				results = append(results, v)
				c.declVar(s, v, zeroValue(v.Type()))
			}
		}
	}
	savedDefers := s.defers
	s.defers = nil
	c.inline = append(c.inline, &inlineFrame{results: results, lit: lit})
	exits := c.execBlock(body.List, s)
	c.inline = c.inline[:len(c.inline)-1]
	var done []*State
	for _, e := range exits {
		switch e.kind {
		case xFall, xReturn:
			c.runDefers(e.s)
			e.s.defers = savedDefers
			done = append(done, e.s)
		case xPanic:
			// a panic inside an inlined body: path ends (obligation already recorded)
		default:
			panic("break/continue escaping inlined function")
		}
	}
	if len(done) == 0 {
		s.assume("false")
		s.dead = true
		return c.zeroResults(results)
	}
	m := c.mergeStates(done)
	if m != s {
		*s = *m
	}
	s.defers = savedDefers
	switch len(results) {
	case 0:
		return NoneV{}
	case 1:
		return s.vars[results[0]]
	}
	var tv TupleV
	for _, r := range results {
		tv = append(tv, s.vars[r])
	}
	return tv
}

func (c *Ctx) zeroResults(results []*types.Var) Value {
	switch len(results) {
	case 0:
		return NoneV{}
	case 1:
		return zeroValue(results[0].Type())
	}
	var tv TupleV
	for _, r := range results {
		tv = append(tv, zeroValue(r.Type()))
	}
	return tv
}

// inlineFunc executes the body of a declared in-repo function in place (helpers marked `inline`).
func (c *Ctx) inlineFunc(x *ast.CallExpr, s *State, callee *types.Func, recv Value, args []Value) (Value, bool) {
	fd, pkg := c.eng.declOf(callee)
	if fd == nil || fd.Body == nil {
		return nil, false
	}
	for _, fr := range c.inlineStack {
		if fr == callee {
			return nil, false // recursion
		}
	}
	savedPkg, savedCon := c.pkg, c.con
	c.pkg = pkg
	key := funcKey(callee)
	if k := c.eng.contracts[key]; k != nil {
		c.con = &Contract{Key: savedCon.Key, Loops: k.Loops, Ats: k.Ats}
	} else {
		c.con = &Contract{Key: savedCon.Key, Loops: map[int]*LoopSpec{}, Ats: map[string][]AtClause{}}
	}
	c.eng.ordinals(c, fd)
	c.inlineStack = append(c.inlineStack, callee)
	defer func() {
		c.pkg, c.con = savedPkg, savedCon
		c.inlineStack = c.inlineStack[:len(c.inlineStack)-1]
	}()
	sig := callee.Type().(*types.Signature)
	var recvVar *types.Var
	if fd.Recv != nil && len(fd.Recv.List) > 0 && len(fd.Recv.List[0].Names) > 0 {
		recvVar, _ = pkg.TypesInfo.Defs[fd.Recv.List[0].Names[0]].(*types.Var)
	}
	v := c.inlineBody(fd.Type, fd.Body, sig, recvVar, recv, args, s, nil)
	return v, true
}

// ---------------------------------------------------------------------------------------------
// modular call

func (c *Ctx) applyContract(x *ast.CallExpr, s *State, k *Contract, sig *types.Signature, callee *types.Func, recv Value, args []Value, key string) Value {
	c.calleesUsed[key] = true
	if c.eng.callProbes && c.dry == 0 && !s.dead && len(k.Ensures) > 0 {
		before := s.assumes
		defer func() {
			c.obls = append(c.obls, &Oblig{Name: fmt.Sprintf("%s/smoke(after %s#%d)", c.con.Key, key, c.callOrd[x]), Kind: "smoke", Func: c.con.Key,
				Assumes: s.assumes, Before: before, Goal: "false", Pos: c.eng.fset.Position(x.Pos()), Smoke: true, decls: c})
		}()
	}
	env := c.calleeEnv(k, sig, callee, recv, args, s)
	if callee == nil {
		// contract of a function value used inside this function: it may mention the enclosing function's variables
		env.own = true
		env.pos = x.Pos()
	}
	ord := c.callOrd[x]
	// preconditions
	for _, r := range k.Requires {
		g := c.cevalBoolEnv(r.Expr, env)
		c.oblige(s, "pre:"+key, r.Text, x.Pos(), g, r.Tags)
	}
	_ = ord
	old := s.clone()
	env.old = old
	// effects
	if !k.Pure {
		if !k.HasModifies {
			c.havocAll(s)
			c.frameEffect(s, "all")
		} else {
			c.havocModifies(s, k.Modifies, env)
			for _, m := range k.Modifies {
				if strings.HasPrefix(m, "contents(") || strings.HasPrefix(m, "object(") {
					name := m[strings.Index(m, "(")+1 : len(m)-1]
					bv, bt := c.modTarget(name, env)
					switch u := bt.Underlying().(type) {
					case *types.Slice:
						if !c.freshRefs[bv.(SliceV).Ref] {
							c.frameEffect(s, memKey(u.Elem()))
						}
					case *types.Pointer:
						if !c.freshRefs[asInt(bv)] {
							c.frameEffect(s, "F."+typeKey(u.Elem())+".*")
						}
					}
					continue
				}
				c.frameCallee = append(c.frameCallee, m)
			}
		}
	}
	// results
	var resVals []Value
	nres := sig.Results().Len()
	for i := 0; i < nres; i++ {
		rv := sig.Results().At(i)
		name := rv.Name()
		if i < len(k.Results) {
			name = k.Results[i]
		}
		if name == "" || name == "_" {
			name = fmt.Sprintf("r%d", i)
		}
		var val Value
		if k.Pure {
			val = c.pureApp(s, key, i, rv.Type(), recv, args, sig)
		} else {
			val = c.freshValue(s, callee_name(callee, key)+"."+name, rv.Type())
		}
		resVals = append(resVals, val)
		env.names[name] = bound{val, rv.Type()}
		env.names[fmt.Sprintf("r%d", i)] = bound{val, rv.Type()}
	}
	env.s = s
	for _, e := range k.Ensures {
		if len(k.Hides) > 0 {
			c.watchKeys = map[string]bool{}
			for _, h := range k.Hides {
				c.watchKeys[h] = true
			}
			c.watchHit = false
		}
		g := c.cevalBoolEnv(e.Expr, env)
		hit := c.watchHit
		c.watchKeys, c.watchHit = nil, false
		if hit {
			// the callee's effects on these keys are scoped to the callee (`hides`): in the caller's state they are
			// unchanged, so a postcondition speaking about them says nothing here (assuming it would be contradictory)
			c.note("a postcondition of " + key + " over ghost state it hides is checked there and not assumed by callers")
			continue
		}
		s.assume(g)
	}
	// whatever reference a call hands back denotes an object that exists now (it may be one the callee allocated:
	// `!was(allocated(r))` in its contract speaks about the heap before the call)
	if !k.Pure {
		for i, v := range resVals {
			ref := ""
			switch xv := v.(type) {
			case SliceV:
				ref = xv.Ref
			case IntV:
				if isRefLike(sig.Results().At(i).Type()) {
					ref = xv.T
				}
			}
			if ref != "" {
				al := c.heapGet(s, "X.alloc", sA1)
				c.heapSetQuiet(s, "X.alloc", sA1, store(al, ref, "1"))
			}
		}
	}
	switch nres {
	case 0:
		return NoneV{}
	case 1:
		return resVals[0]
	}
	return TupleV(resVals)
}

func callee_name(callee *types.Func, key string) string {
	if callee != nil {
		return callee.Name()
	}
	return key
}

func (c *Ctx) pureApp(s *State, key string, i int, t types.Type, recv Value, args []Value, sig *types.Signature) Value {
	var flat []string
	if recv != nil {
		if _, none := recv.(NoneV); !none && sig.Recv() != nil {
			flat = append(flat, flatten(recv, sig.Recv().Type())...)
		}
	}
	for j, a := range args {
		if j < sig.Params().Len() {
			flat = append(flat, flatten(a, sig.Params().At(j).Type())...)
		}
	}
	var ts []string
	for _, l := range leaves(t) {
		fn := sanitize(fmt.Sprintf("pure.%s.%d%s", key, i, l))
		if len(flat) == 0 {
			c.declare(fn, sInt)
			ts = append(ts, fn)
		} else {
			c.declareFun(fn, len(flat), sInt)
			ts = append(ts, app(fn, flat...))
		}
	}
	v, _ := unflatten(ts, t)
	c.assumeTyped(s, v, t)
	return v
}

// calleeEnv binds the callee's parameter names to the argument values.
func (c *Ctx) calleeEnv(k *Contract, sig *types.Signature, callee *types.Func, recv Value, args []Value, s *State) *CEnv {
	env := &CEnv{c: c, s: s, names: map[string]bound{}}
	if callee != nil && callee.Pkg() != nil {
		env.pkgScope = callee.Pkg().Scope()
	} else {
		env.pkgScope = c.pkg.Types.Scope()
	}
	if sig.Recv() != nil && recv != nil {
		name := sig.Recv().Name()
		if name != "" && name != "_" {
			env.names[name] = bound{recv, sig.Recv().Type()}
		}
		env.names["recv"] = bound{recv, sig.Recv().Type()}
	}
	for i := 0; i < sig.Params().Len() && i < len(args); i++ {
		p := sig.Params().At(i)
		name := p.Name()
		if i < len(k.Params) {
			name = k.Params[i]
		}
		if sig.Variadic() && i == sig.Params().Len()-1 && len(args) != sig.Params().Len() {
			continue
		}
		if sig.Variadic() && i == sig.Params().Len()-1 {
			if _, isSlice := args[i].(SliceV); !isSlice {
				continue
			}
		}
		if name != "" && name != "_" {
			env.names[name] = bound{args[i], p.Type()}
		}
		env.names[fmt.Sprintf("p%d", i)] = bound{args[i], p.Type()}
	}
	return env
}

// havocModifies havocs the heap keys named by a modifies clause. Entries:
//   M.<elemtype>            slice memory of that element type (all leaves)
//   F.<type>.<field>        one field map
//   F.<type>.*              all fields of a struct type
//   G.<pkg>.<name>          a package-level variable
//   ghost.<name>            ghost variable
//   contents(<param>)       only the backing array of that slice argument
//   all
func (c *Ctx) havocModifies(s *State, mods []string, env *CEnv) {
	for _, m := range mods {
		switch {
		case m == "all":
			c.havocAll(s)
		case strings.HasPrefix(m, "contents(") && strings.HasSuffix(m, ")"):
			v, t := c.modTarget(m[len("contents("):len(m)-1], env)
			st, isSlice := t.Underlying().(*types.Slice)
			if !isSlice {
				panic(cerr{"modifies " + m + ": not a slice"})
			}
			c.havocSliceContents(s, v.(SliceV), st.Elem())
		case strings.HasPrefix(m, "object(") && strings.HasSuffix(m, ")"):
			v, t := c.modTarget(m[len("object("):len(m)-1], env)
			pt, isPtr := t.Underlying().(*types.Pointer)
			if !isPtr {
				panic(cerr{"modifies " + m + ": not a pointer"})
			}
			c.havocObject(s, asInt(v), pt.Elem())
		default:
			// covers keys not touched so far in this function too (they are materialised later under a new epoch)
			c.pendingHavoc(s, m)
		}
	}
}

// modTarget evaluates the argument of contents(..)/object(..) in the callee's pre-state environment.
func (c *Ctx) modTarget(text string, env *CEnv) (Value, types.Type) {
	if b, ok := env.names[text]; ok {
		return b.v, b.t
	}
	ex, err := parseCExpr(text)
	if err != nil {
		panic(cerr{"modifies: cannot parse " + text})
	}
	pre := env
	if env.old != nil {
		pre = env.withState(env.old)
	}
	return pre.eval(ex)
}

// ---------------------------------------------------------------------------------------------
// library functions modelled directly

func (c *Ctx) specialCall(x *ast.CallExpr, s *State, callee *types.Func, key string, recv Value, args []Value) (Value, bool) {
	switch key {
	case "binary.bigEndian.Uint16", "binary.bigEndian.Uint32", "binary.bigEndian.Uint64":
		n := map[string]int{"Uint16": 2, "Uint32": 4, "Uint64": 8}[callee.Name()]
		sv := args[0].(SliceV)
		if c.checkPanics {
			c.oblige(s, "index", c.text(x), x.Pos(), lt(num(int64(n-1)), sv.Len), c.panicTags)
		}
		m := c.heapGet(s, "M.byte", sA2)
		arr := sel(m, sv.Ref)
		return IntV{c.beRead(s, arr, sv.Off, n)}, true
	case "binary.bigEndian.PutUint16", "binary.bigEndian.PutUint32", "binary.bigEndian.PutUint64":
		n := map[string]int{"PutUint16": 2, "PutUint32": 4, "PutUint64": 8}[callee.Name()]
		sv := args[0].(SliceV)
		v := asInt(args[1])
		if c.checkPanics {
			c.oblige(s, "index", c.text(x), x.Pos(), lt(num(int64(n-1)), sv.Len), c.panicTags)
		}
		c.bePut(s, sv, v, n)
		return NoneV{}, true
	case "binary.bigEndian.AppendUint16", "binary.bigEndian.AppendUint32", "binary.bigEndian.AppendUint64":
		// not used by the functions under contract
	case "b.(*Tree).Put":
		// modernc.org/b/v2 Tree.Put(k, upd): upd is called exactly once with (the value stored under k, true) or (zero,
		// false); the tree changes only if upd returns true as its second result (contents summarised as ghost
		// X.regionstate). Whether k is present is not tracked: both cases are explored.
		if lit, ok := unparen(x.Args[1]).(*ast.FuncLit); ok && len(args) == 2 {
			sig := c.typeOf(lit).(*types.Signature)
			exists := c.fresh("treehas", sBool)
			v := c.freshValue(s, "treeval", sig.Params().At(0).Type())
			if iv, ok := v.(IntV); ok {
				s.assume(eq(not(eq(iv.T, "0")), exists)) // an absent key is presented as the zero value; stored values are non-nil
			}
			res := c.inlineLit(lit, []Value{v, BoolV{exists}}, s, x)
			write := "true"
			if tv, ok := res.(TupleV); ok && len(tv) == 2 {
				write = asBool(tv[1])
			}
			old := c.heapGet(s, "X.regionstate", sInt)
			nw := c.fresh("treestate", sInt)
			c.heapSet(s, "X.regionstate", sInt, ite(write, nw, old))
			c.frameEffect(s, "X.regionstate")
			c.note("b.Tree.Put: the updater runs once; the tree changes only if it returns true (assumed contract of modernc.org/b/v2, DESIGN.md Appendix A)")
			return TupleV{c.freshValue(s, "treeold", sig.Params().At(0).Type()), BoolV{write}}, true
		}
	case "sync.(*Pool).Get":
		// pool discipline (assumption): an object handed out by a sync.Pool is referenced by nobody else - it is
		// treated like a new allocation (the pointer itself, or the backing array of a pooled []byte)
		v := c.fresh("pooled", sInt)
		c.note("sync.Pool.Get: the object handed out is exclusively owned (no use after Put anywhere) - treated as newly allocated; its contents are arbitrary")
		fn := sanitize("ifaceval.[]byte#ref")
		c.declareFun(fn, 1, sInt)
		inner := app(fn, v)
		al := c.heapGet(s, "X.alloc", sA1)
		s.assume(or(eq(v, "0"), eq(sel(al, v), "0")))
		s.assume(or(eq(inner, "0"), eq(sel(al, inner), "0")))
		s.assume(not(eq(v, inner)))
		c.heapSetQuiet(s, "X.alloc", sA1, store(store(al, v, "1"), inner, "1"))
		return IntV{v}, true
	case "sync.(*Once).Do":
		// the function runs iff no earlier Do of this Once has run (ghost flag X.oncedone[once]); A2: Once is atomic
		if lit, ok := unparen(x.Args[0]).(*ast.FuncLit); ok {
			once := asInt(recv)
			m := c.heapGet(s, "X.oncedone", sA1)
			first := eq(sel(m, once), "0")
			s.assume(or(first, eq(sel(m, once), "1")))
			run := s.clone()
			run.assume(first)
			c.heapSet(run, "X.oncedone", sA1, store(m, once, "1"))
			c.frameEffect(s, "X.oncedone")
			c.inlineLit(lit, nil, run, x)
			skip := s
			skip.assume(not(first))
			merged := c.mergeStates([]*State{run, skip})
			*s = *merged
			c.note("sync.Once.Do runs its function at most once (ghost flag per Once)")
			return NoneV{}, true
		}
	case "sync.(*Mutex).Lock", "sync.(*Mutex).Unlock", "sync.(*RWMutex).Lock", "sync.(*RWMutex).Unlock", "sync.(*RWMutex).RLock", "sync.(*RWMutex).RUnlock":
		c.eng.onLock(c, s, x, callee.Name(), recv)
		return NoneV{}, true
	}
	if callee.Pkg() != nil && callee.Pkg().Path() == "sync/atomic" && len(x.Args) >= 1 {
		if ue, ok := unparen(x.Args[0]).(*ast.UnaryExpr); ok && ue.Op == token.AND {
			lv := ue.X
			lt := c.typeOf(lv)
			name := callee.Name()
			switch {
			case strings.HasPrefix(name, "Add") && len(args) == 2:
				cur := asInt(c.eval(lv, s))
				nv := c.arithResultNoOvf(add(cur, asInt(args[1])), lt)
				c.assign(lv, IntV{nv}, s)
				c.note("sync/atomic operations are modelled as sequentially consistent read-modify-write steps")
				return IntV{nv}, true
			case strings.HasPrefix(name, "Load"):
				return c.eval(lv, s), true
			case strings.HasPrefix(name, "Store") && len(args) == 2:
				c.assign(lv, args[1], s)
				return NoneV{}, true
			case strings.HasPrefix(name, "CompareAndSwap") && len(args) == 3:
				cur := c.eval(lv, s)
				same := c.valuesEqual(cur, args[1], lt)
				c.assign(lv, c.mergeValues(s, []Value{args[2], cur}, []string{same, "true"}, "cas"), s)
				return BoolV{same}, true
			}
		}
	}
	if key == "proto.Unmarshal" && len(args) == 2 && len(x.Args) == 2 {
		return c.protoUnmarshal(x, s, args), true
	}
	// protobuf getters: nil-safe field reads
	if callee.Pkg() != nil && callee.Pkg().Name() == "pb" && strings.HasPrefix(callee.Name(), "Get") && len(args) == 0 && recv != nil {
		if v, ok := c.pbGetter(s, callee, recv); ok {
			return v, true
		}
	}
	return nil, false
}

// beRead returns the big-endian value of n bytes at arr[off..].
func (c *Ctx) beRead(s *State, arr, off string, n int) string {
	var terms []string
	for i := 0; i < n; i++ {
		b := sel(arr, app("ix", off, num(int64(i))))
		s.assume(and(le("0", b), le(b, "255")))
		terms = append(terms, mul(pow2(8*(n-1-i)), b))
	}
	r := app("+", terms...)
	return c.nameValue(s, fmt.Sprintf("be%d", n*8), IntV{r}).(IntV).T
}

// bePut writes v big-endian into sv[0:n]: the new array agrees with the old one elsewhere, the n cells are bytes,
// and their big-endian sum is v (stated in sum form, justified by lemma put-be).
func (c *Ctx) bePut(s *State, sv SliceV, v string, n int) {
	c.noteWrite(s, "M.byte", sv.Ref)
	m := c.heapGet(s, "M.byte", sA2)
	old := sel(m, sv.Ref)
	cur := old
	var cells []string
	for i := 0; i < n; i++ {
		cell := c.fresh("pb", sInt)
		s.assume(and(le("0", cell), le(cell, "255")))
		cells = append(cells, cell)
		cur = store(cur, app("ix", sv.Off, num(int64(i))), cell)
	}
	var terms []string
	for i := 0; i < n; i++ {
		terms = append(terms, mul(pow2(8*(n-1-i)), cells[i]))
	}
	s.assume(eq(app("+", terms...), v))
	c.heapSet(s, "M.byte", sA2, store(m, sv.Ref, cur))
	c.note("binary.BigEndian.PutUintN is modelled in big-endian-sum form (lemma put-be)")
}

func (c *Ctx) pbGetter(s *State, callee *types.Func, recv Value) (Value, bool) {
	sig := callee.Type().(*types.Signature)
	rt, ok := sig.Recv().Type().(*types.Pointer)
	if !ok {
		return nil, false
	}
	st, ok := rt.Elem().Underlying().(*types.Struct)
	if !ok {
		return nil, false
	}
	fname := strings.TrimPrefix(callee.Name(), "Get")
	var fld *types.Var
	for i := 0; i < st.NumFields(); i++ {
		if st.Field(i).Name() == fname {
			fld = st.Field(i)
		}
	}
	if fld == nil {
		return nil, false
	}
	resT := sig.Results().At(0).Type()
	ref := asInt(recv)
	fv := c.readField(s, ref, rt.Elem(), fld)
	c.note("protobuf-generated GetX methods are modelled as nil-safe field reads (defaults other than zero are not modelled)")
	var res Value
	if pt, isPtr := fld.Type().Underlying().(*types.Pointer); isPtr && !types.Identical(fld.Type(), resT) {
		// optional scalar: *T -> T
		p := asInt(fv)
		inner := c.loadPtr(s, p, pt.Elem())
		res = c.mergeValues(s, []Value{inner, zeroValue(resT)}, []string{not(eq(p, "0")), "true"}, "get")
	} else {
		res = fv
	}
	z := zeroValue(resT)
	// declared proto2 default?
	if named, ok := rt.Elem().(*types.Named); ok {
		if dc, ok := callee.Pkg().Scope().Lookup("Default_" + named.Obj().Name() + "_" + fname).(*types.Const); ok {
			z = constToValue(dc.Val(), dc.Type(), c)
			if pt, isPtr := fld.Type().Underlying().(*types.Pointer); isPtr {
				p := asInt(fv)
				inner := c.loadPtr(s, p, pt.Elem())
				res = c.mergeValues(s, []Value{inner, z}, []string{not(eq(p, "0")), "true"}, "get")
			}
		}
	}
	return c.mergeValues(s, []Value{z, res}, []string{eq(ref, "0"), "true"}, "get"), true
}

// protoUnmarshal models proto.Unmarshal(b, m): m's object graph is overwritten; on success every proto2 `req`
// field of the message (and of its required sub-messages) is present. Assumed contract of the protobuf runtime.
func (c *Ctx) protoUnmarshal(x *ast.CallExpr, s *State, args []Value) Value {
	c.note("proto.Unmarshal: assumed contract - overwrites the target message, never panics, and on success all proto2 required fields are present")
	ref := asInt(args[1])
	st := c.typeOf(x.Args[1])
	err := c.fresh("Unmarshal.err", sInt)
	s.assume(le("0", err))
	pt, isPtr := st.Underlying().(*types.Pointer)
	if !isPtr {
		// dynamic message type unknown: every protobuf message field may change
		// (arrays holding repeated fields are allocated by the decoder; existing arrays are not written)
		c.pendingHavoc(s, "F.pb.")
		c.frameEffect(s, "F.pb.*")
		s.assume(implies(eq(err, "0"), c.pbReqFacts(s)))
		return IntV{err}
	}
	c.havocObject(s, ref, pt.Elem())
	// the sub-objects are freshly allocated by the decoder: their contents are arbitrary, which the next reads see
	// through the havocked pointer fields (fresh refs are unconstrained)
	c.pendingHavocPB(s, ref)
	c.requiredPresent(s, ref, pt.Elem(), eq(err, "0"), 0)
	s.assume(implies(eq(err, "0"), c.pbReqFacts(s)))
	return IntV{err}
}

// pbReqFacts: in the current heap every protobuf message object has its proto2 `req` pointer fields set.
// (True of object graphs produced by a successful proto.Unmarshal; used as pbwf() in contracts.)
func (c *Ctx) pbReqFacts(s *State) string {
	p := c.eng.pkgByName["pb"]
	if p == nil {
		return "true"
	}
	var conj []string
	for _, n := range p.Scope().Names() {
		tn, ok := p.Scope().Lookup(n).(*types.TypeName)
		if !ok {
			continue
		}
		st, ok := tn.Type().Underlying().(*types.Struct)
		if !ok {
			continue
		}
		for i := 0; i < st.NumFields(); i++ {
			f := st.Field(i)
			if !strings.Contains(st.Tag(i), ",req,") {
				continue
			}
			if _, isPtr := f.Type().Underlying().(*types.Pointer); !isPtr {
				continue
			}
			arr := c.heapGet(s, fieldKey(tn.Type(), f.Name()), sA1)
			conj = append(conj, fmt.Sprintf("(forall ((r Int)) (! (=> (< 0 r) (< 0 (select %s r))) :pattern ((select %s r))))", arr, arr))
		}
	}
	return and(conj...)
}

// pendingHavocPB: sub-messages reachable from a decoded message are new objects with arbitrary contents.
func (c *Ctx) pendingHavocPB(s *State, target string) {
	// Sound over-approximation: all protobuf message fields become arbitrary.
	c.pendingHavoc(s, "F.pb.")
	if !c.freshRefs[target] {
		c.frameEffect(s, "F.pb.*")
	}
}

func (c *Ctx) requiredPresent(s *State, ref string, t types.Type, cond string, depth int) {
	st, ok := t.Underlying().(*types.Struct)
	if !ok || depth > 2 {
		return
	}
	for i := 0; i < st.NumFields(); i++ {
		f := st.Field(i)
		tag := st.Tag(i)
		if !strings.Contains(tag, ",req,") {
			continue
		}
		if p, isPtr := f.Type().Underlying().(*types.Pointer); isPtr {
			fv := asInt(c.readField(s, ref, t, f))
			s.assume(implies(cond, lt("0", fv)))
			c.requiredPresent(s, fv, p.Elem(), cond, depth+1)
		}
	}
}

var _ = token.NoPos
