package main

// Evaluation of contract expressions (Go expression syntax + pseudo-calls) against a symbolic state.

import (
	"fmt"
	"go/ast"
	"go/constant"
	"go/token"
	"go/types"
	"strconv"
	"strings"
)

type bound struct {
	v Value
	t types.Type
}

type CEnv struct {
	c        *Ctx
	s        *State
	old      *State
	names    map[string]bound
	pkgScope *types.Scope
	own      bool      // expression belongs to the function under verification: resolve locals through Go scopes
	pos      token.Pos // program point for scope lookup
	oldNames map[string]bound
	nq       int
	qvars    []string // SMT names of the quantifier / sum binders in scope
}

var tInt = types.Typ[types.Int]
var tBool = types.Typ[types.Bool]

type cerr struct{ msg string }

func cfail(format string, args ...interface{}) {
	panic(cerr{fmt.Sprintf(format, args...)})
}

// ownEnv builds the environment for clauses of the function being verified.
func (c *Ctx) ownEnv(s *State, pos token.Pos) *CEnv {
	env := &CEnv{c: c, s: s, old: c.entry, names: map[string]bound{}, pkgScope: c.pkg.Types.Scope(), own: true, pos: pos}
	return env
}

func (c *Ctx) cevalBool(e ast.Expr, s *State, extra map[string]bound, pos token.Pos) string {
	env := c.ownEnv(s, pos)
	for k, v := range extra {
		env.names[k] = v
	}
	return c.cevalBoolEnv(e, env)
}

func (c *Ctx) ceval(e ast.Expr, s *State, extra map[string]bound, pos token.Pos) Value {
	env := c.ownEnv(s, pos)
	for k, v := range extra {
		env.names[k] = v
	}
	v, _ := env.eval(e)
	return v
}

func (c *Ctx) cevalBoolEnv(e ast.Expr, env *CEnv) (res string) {
	defer func() {
		if r := recover(); r != nil {
			if ce, ok := r.(cerr); ok {
				if c.dry > 0 {
					res = "false"
					return
				}
				prefix := ""
				if len(c.curTags) > 0 {
					prefix = "[" + strings.Join(c.curTags, ",") + "] "
				}
				c.bindingErrors = append(c.bindingErrors, prefix+fmt.Sprintf("%s: %s", c.eng.exprString(e), ce.msg))
				res = "false"
				return
			}
			panic(r)
		}
	}()
	v, _ := env.eval(e)
	return asBool(v)
}

func (env *CEnv) lookup(name string) (bound, bool) {
	if b, ok := env.names[name]; ok {
		return b, true
	}
	c := env.c
	if env.own {
		// results r0.. and named
		if strings.HasPrefix(name, "r") {
			if i, err := strconv.Atoi(name[1:]); err == nil && i < len(c.results) {
				return bound{c.readVar(env.s, c.results[i], env.pos), c.results[i].Type()}, true
			}
		}
		if v, ok := c.idxVars[name]; ok {
			return bound{c.readVar(env.s, v, env.pos), v.Type()}, true
		}
		if name == "idx" && c.curLoop > 0 {
			if v, ok := c.loopIdxVar[c.curLoop]; ok {
				if _, has := env.s.vars[v]; has {
					return bound{c.readVar(env.s, v, env.pos), v.Type()}, true
				}
			}
		}
		if v := c.lookupLocal(name, env.pos); v != nil {
			if _, ok := env.s.vars[v]; ok || c.isGlobal(v) {
				return bound{c.readVar(env.s, v, env.pos), v.Type()}, true
			}
			if env.s == c.entry || env.s == env.old {
				cfail("%s is not defined at function entry", name)
			}
			cfail("variable %s has no value at this point", name)
		}
	}
	if env.pkgScope != nil {
		if obj := env.pkgScope.Lookup(name); obj != nil {
			switch o := obj.(type) {
			case *types.Var:
				return bound{c.readGlobal(env.s, o), o.Type()}, true
			case *types.Const:
				return bound{constToValue(o.Val(), o.Type(), c), o.Type()}, true
			}
		}
	}
	return bound{}, false
}

// lookupLocal finds a local variable / parameter / named result by name, innermost scope at pos first.
func (c *Ctx) lookupLocal(name string, pos token.Pos) *types.Var {
	if c.decl == nil {
		return nil
	}
	fscope := c.pkg.TypesInfo.Scopes[c.decl.Type]
	if fscope == nil {
		return nil
	}
	sc := fscope.Innermost(pos)
	if sc == nil {
		sc = fscope
	}
	for s := sc; s != nil; s = s.Parent() {
		if obj := s.Lookup(name); obj != nil {
			if v, ok := obj.(*types.Var); ok {
				// a local declared later in the same scope is not visible yet, unless pos is a loop head inside its scope
				return v
			}
			return nil
		}
		if s == fscope {
			break
		}
	}
	// search nested scopes (unique name): lets exit asserts mention variables of inner blocks
	var found *types.Var
	n := 0
	var walk func(s *types.Scope)
	walk = func(s *types.Scope) {
		if obj := s.Lookup(name); obj != nil {
			if v, ok := obj.(*types.Var); ok {
				found = v
				n++
			}
		}
		for i := 0; i < s.NumChildren(); i++ {
			walk(s.Child(i))
		}
	}
	walk(fscope)
	if n == 1 {
		return found
	}
	return nil
}

func (env *CEnv) eval(e ast.Expr) (Value, types.Type) {
	c := env.c
	switch x := e.(type) {
	case *ast.ParenExpr:
		return env.eval(x.X)
	case *ast.BasicLit:
		switch x.Kind {
		case token.INT:
			cv := constant.MakeFromLiteral(x.Value, token.INT, 0)
			return constToValue(cv, tInt, c), tInt
		case token.CHAR:
			cv := constant.MakeFromLiteral(x.Value, token.CHAR, 0)
			return constToValue(constant.ToInt(cv), tInt, c), tInt
		case token.STRING:
			sv, _ := strconv.Unquote(x.Value)
			return IntV{c.strLit(sv)}, types.Typ[types.String]
		}
	case *ast.Ident:
		switch x.Name {
		case "true":
			return BoolV{"true"}, tBool
		case "false":
			return BoolV{"false"}, tBool
		case "nil":
			return IntV{"0"}, types.Typ[types.UntypedNil]
		}
		if b, ok := env.lookup(x.Name); ok {
			return b.v, b.t
		}
		// SMT constant from the prelude
		if so, ok := c.eng.specConsts[x.Name]; ok {
			if so == sBool {
				return BoolV{x.Name}, tBool
			}
			return IntV{x.Name}, tInt
		}
		cfail("unknown identifier %s", x.Name)
	case *ast.UnaryExpr:
		v, t := env.eval(x.X)
		switch x.Op {
		case token.NOT:
			return BoolV{not(asBool(v))}, tBool
		case token.SUB:
			return IntV{sub("0", asInt(v))}, t
		}
	case *ast.BinaryExpr:
		return env.evalBinary(x)
	case *ast.SelectorExpr:
		return env.evalSelector(x)
	case *ast.IndexExpr:
		bv, bt := env.eval(x.X)
		iv, _ := env.eval(x.Index)
		switch u := bt.Underlying().(type) {
		case *types.Slice:
			return c.readElem(env.s, bv.(SliceV), asInt(iv), u.Elem()), u.Elem()
		case *types.Map:
			v, _ := c.mapLookup(env.s, asInt(bv), u, iv)
			return v, u.Elem()
		case *types.Basic:
			c.useStr()
			return IntV{app("gs.at", asInt(bv), asInt(iv))}, types.Typ[types.Uint8]
		}
		cfail("cannot index %s", typeKey(bt))
	case *ast.SliceExpr:
		bv, bt := env.eval(x.X)
		sv, ok := bv.(SliceV)
		if !ok {
			cfail("slice expression on non-slice")
		}
		lo, hi := "0", sv.Len
		if x.Low != nil {
			v, _ := env.eval(x.Low)
			lo = asInt(v)
		}
		if x.High != nil {
			v, _ := env.eval(x.High)
			hi = asInt(v)
		}
		return SliceV{sv.Ref, add(sv.Off, lo), sub(hi, lo), sub(sv.Cap, lo), false}, bt
	case *ast.StarExpr:
		pv, pt := env.eval(x.X)
		p, ok := pt.Underlying().(*types.Pointer)
		if !ok {
			cfail("deref of non-pointer")
		}
		return c.loadPtr(env.s, asInt(pv), p.Elem()), p.Elem()
	case *ast.CallExpr:
		return env.evalCall(x)
	}
	cfail("unsupported contract expression %s", c.eng.exprString(e))
	return nil, nil
}

func (env *CEnv) evalBinary(x *ast.BinaryExpr) (Value, types.Type) {
	c := env.c
	switch x.Op {
	case token.LAND, token.LOR:
		l, _ := env.eval(x.X)
		r, _ := env.eval(x.Y)
		if x.Op == token.LAND {
			return BoolV{and(asBool(l), asBool(r))}, tBool
		}
		return BoolV{or(asBool(l), asBool(r))}, tBool
	}
	l, lt_ := env.eval(x.X)
	r, rt := env.eval(x.Y)
	switch x.Op {
	case token.EQL, token.NEQ:
		t := lt_
		if b, ok := t.(*types.Basic); ok && b.Kind() == types.UntypedNil {
			t = rt
			l, r = r, l
		}
		var res string
		if _, lb := l.(BoolV); lb {
			res = eq(asBool(l), asBool(r))
		} else if _, rb := r.(BoolV); rb {
			res = eq(asBool(l), asBool(r))
		} else {
			res = c.valuesEqual(l, r, t)
		}
		if x.Op == token.NEQ {
			res = not(res)
		}
		return BoolV{res}, tBool
	case token.LSS:
		return BoolV{lt(asInt(l), asInt(r))}, tBool
	case token.LEQ:
		return BoolV{le(asInt(l), asInt(r))}, tBool
	case token.GTR:
		return BoolV{gt(asInt(l), asInt(r))}, tBool
	case token.GEQ:
		return BoolV{ge(asInt(l), asInt(r))}, tBool
	case token.ADD:
		return IntV{add(asInt(l), asInt(r))}, tInt
	case token.SUB:
		return IntV{sub(asInt(l), asInt(r))}, tInt
	case token.MUL:
		return IntV{mul(asInt(l), asInt(r))}, tInt
	case token.QUO:
		return IntV{app("div", asInt(l), asInt(r))}, tInt
	case token.REM:
		return IntV{app("mod", asInt(l), asInt(r))}, tInt
	}
	cfail("unsupported operator %s", x.Op)
	return nil, nil
}

func (env *CEnv) evalSelector(x *ast.SelectorExpr) (Value, types.Type) {
	c := env.c
	// qualified identifier pkg.Name ?
	if id, ok := x.X.(*ast.Ident); ok {
		if _, isVar := env.lookup(id.Name); !isVar {
			if p := c.eng.pkgByName[id.Name]; p != nil {
				obj := p.Scope().Lookup(x.Sel.Name)
				switch o := obj.(type) {
				case *types.Var:
					return c.readGlobal(env.s, o), o.Type()
				case *types.Const:
					return constToValue(o.Val(), o.Type(), c), o.Type()
				}
				cfail("unknown %s.%s", id.Name, x.Sel.Name)
			}
		}
	}
	bv, bt := env.eval(x.X)
	return env.selectField(bv, bt, x.Sel.Name)
}

func (env *CEnv) selectField(bv Value, bt types.Type, name string) (Value, types.Type) {
	c := env.c
	obj, idx, _ := types.LookupFieldOrMethod(bt, true, c.pkgOfType(bt), name)
	f, ok := obj.(*types.Var)
	if !ok {
		cfail("no field %s in %s", name, typeKey(bt))
	}
	saved := c.checkPanics
	c.checkPanics = false
	defer func() { c.checkPanics = saved }()
	ref, st, sv := c.walkPath(env.s, bv, bt, idx[:len(idx)-1], nil)
	if ref != "" {
		return c.readField(env.s, ref, st, f), f.Type()
	}
	return sv.(StructV).F[f.Name()], f.Type()
}

func (c *Ctx) pkgOfType(t types.Type) *types.Package {
	if p, ok := t.(*types.Pointer); ok {
		t = p.Elem()
	}
	if n, ok := t.(*types.Named); ok && n.Obj().Pkg() != nil {
		return n.Obj().Pkg()
	}
	return c.pkg.Types
}

func (env *CEnv) withState(s *State) *CEnv {
	n := *env
	n.s = s
	return &n
}

func (env *CEnv) evalCall(x *ast.CallExpr) (Value, types.Type) {
	c := env.c
	if id, ok := x.Fun.(*ast.Ident); ok {
		switch id.Name {
		case "old":
			if env.old == nil {
				cfail("old() not available here")
			}
			// evaluate over the old heap/variables; definitional facts produced on the way belong to the current path
			tmp := *env.old
			tmp.assumes = env.s.assumes
			oe := env.withState(&tmp)
			defer func() { env.s.assumes = tmp.assumes }()
			if env.oldNames != nil {
				oe.names = map[string]bound{}
				for k, v := range env.names {
					oe.names[k] = v
				}
				for k, v := range env.oldNames {
					oe.names[k] = v
				}
			}
			return oe.eval(x.Args[0])
		case "was":
			// was(e): e over the pre-state heap, with the present values of variables and results
			if env.old == nil {
				cfail("was() not available here")
			}
			mixed := *env.old
			mixed.vars = env.s.vars
			mixed.assumes = env.s.assumes
			me := env.withState(&mixed)
			v, t := me.eval(x.Args[0])
			// facts added while evaluating belong to the current path
			env.s.assumes = mixed.assumes
			return v, t
		case "len", "cap":
			v, t := env.eval(x.Args[0])
			switch u := t.Underlying().(type) {
			case *types.Slice:
				if id.Name == "len" {
					return IntV{v.(SliceV).Len}, tInt
				}
				return IntV{v.(SliceV).Cap}, tInt
			case *types.Basic:
				c.useStr()
				return IntV{app("gs.len", asInt(v))}, tInt
			case *types.Map:
				if len(env.qvars) > 0 {
					// under a binder the range fact about the cardinality is stated for every value of the bound variables
					m := asInt(v)
					card := c.heapGet(env.s, "C."+mapKeyName(u), sA1)
					env.s.assume(forall(env.qvars, and(le("0", sel(card, m)), le(sel(card, m), maxLen))))
					return IntV{ite(eq(m, "0"), "0", sel(card, m))}, tInt
				}
				return IntV{c.mapLen(env.s, asInt(v), u)}, tInt
			}
			cfail("len of %s", typeKey(t))
		case "implies":
			a, _ := env.eval(x.Args[0])
			b, _ := env.eval(x.Args[1])
			return BoolV{implies(asBool(a), asBool(b))}, tBool
		case "iff":
			a, _ := env.eval(x.Args[0])
			b, _ := env.eval(x.Args[1])
			return BoolV{eq(asBool(a), asBool(b))}, tBool
		case "ite":
			cnd, _ := env.eval(x.Args[0])
			a, t := env.eval(x.Args[1])
			b, _ := env.eval(x.Args[2])
			return c.mergeValues(env.s, []Value{a, b}, []string{asBool(cnd), "true"}, "ite"), t
		case "forall", "exists":
			// forall(k1, ..., kn, cond, body)  |  forall(k, body)
			n := len(x.Args)
			var vars []string
			nv := 1
			if n >= 3 {
				nv = n - 2
			}
			for i := 0; i < nv; i++ {
				vid, ok := x.Args[i].(*ast.Ident)
				if !ok {
					cfail("%s: bound variable expected", id.Name)
				}
				vars = append(vars, vid.Name)
			}
			rest := x.Args[len(vars):]
			inner := *env
			inner.names = map[string]bound{}
			for k, v := range env.names {
				inner.names[k] = v
			}
			var qv []string
			for _, v := range vars {
				c.nq++
				qn := fmt.Sprintf("%s_q%d", v, c.nq)
				qv = append(qv, qn)
				inner.names[v] = bound{IntV{qn}, tInt}
			}
			inner.qvars = append(append([]string(nil), env.qvars...), qv...)
			var body string
			c.inQuant++
			defer func() { c.inQuant-- }()
			switch len(rest) {
			case 1:
				b, _ := inner.eval(rest[0])
				body = asBool(b)
			case 2:
				cnd, _ := inner.eval(rest[0])
				b, _ := inner.eval(rest[1])
				if id.Name == "forall" {
					body = implies(asBool(cnd), asBool(b))
				} else {
					body = and(asBool(cnd), asBool(b))
				}
			default:
				cfail("%s: bad arity", id.Name)
			}
			if id.Name == "forall" {
				return BoolV{forall(qv, body)}, tBool
			}
			return BoolV{exists(qv, body)}, tBool
		case "typeis":
			v, _ := env.eval(x.Args[0])
			lit, ok := x.Args[1].(*ast.BasicLit)
			if !ok {
				cfail("typeis needs a string literal")
			}
			tn, _ := strconv.Unquote(lit.Value)
			t := c.eng.typeByName(tn)
			if t == nil {
				cfail("unknown type %s", tn)
			}
			return BoolV{c.hasType(asInt(v), t)}, tBool
		case "strlen":
			v, _ := env.eval(x.Args[0])
			c.useStr()
			return IntV{app("gs.len", asInt(v))}, tInt
		case "haskey":
			mv, mt := env.eval(x.Args[0])
			kv, _ := env.eval(x.Args[1])
			u, ok := mt.Underlying().(*types.Map)
			if !ok {
				cfail("haskey: not a map")
			}
			_, present := c.mapLookup(env.s, asInt(mv), u, kv)
			return BoolV{present}, tBool
		case "cast":
			v, _ := env.eval(x.Args[0])
			lit, ok := x.Args[1].(*ast.BasicLit)
			if !ok {
				cfail("cast needs a string literal")
			}
			tn, _ := strconv.Unquote(lit.Value)
			t := c.eng.typeByName(tn)
			if t == nil {
				cfail("unknown type %s", tn)
			}
			return c.fromInterface(env.s, asInt(v), t), t
		case "escaped":
			// escaped(s, k): the address of element k of slice s has been taken (&s[k]) in this function
			sv0, st0 := env.eval(x.Args[0])
			kv, _ := env.eval(x.Args[1])
			slt, ok := st0.Underlying().(*types.Slice)
			if !ok {
				cfail("escaped: not a slice")
			}
			svv := sv0.(SliceV)
			esc := c.heapGet(env.s, "X.esc."+memKey(slt.Elem()), sA2)
			return BoolV{eq(sel(sel(esc, svv.Ref), add(svv.Off, asInt(kv))), "1")}, tBool
		case "elemaddr":
			// elemaddr(s, k): the pointer &s[k] (for slices allocated by the function whose element addresses are taken)
			sv0, st0 := env.eval(x.Args[0])
			kv, _ := env.eval(x.Args[1])
			slt, ok := st0.Underlying().(*types.Slice)
			if !ok {
				cfail("elemaddr: not a slice")
			}
			svv := sv0.(SliceV)
			fn := sanitize("eptr." + typeKey(slt.Elem()))
			if _, ok := c.decls[fn]; !ok {
				c.declareFun(fn, 2, sInt)
				c.declareFun(fn+".ref", 1, sInt)
				c.declareFun(fn+".idx", 1, sInt)
			}
			return IntV{app(fn, svv.Ref, add(svv.Off, asInt(kv)))}, types.NewPointer(slt.Elem())
		case "asiface", "astype":
			// asiface(e, "pkg.Iface") / astype(e, "*pkg.T"): a ghost value (stored as a bare reference) viewed as a value of
			// the interface or pointer type
			v, _ := env.eval(x.Args[0])
			lit, ok := x.Args[1].(*ast.BasicLit)
			if !ok {
				cfail("asiface needs a string literal")
			}
			tn, _ := strconv.Unquote(lit.Value)
			t := c.eng.typeByName(tn)
			if t == nil {
				cfail("unknown type %s", tn)
			}
			return IntV{asInt(v)}, t
		case "externtype":
			// externtype(x): the dynamic type of x is declared outside the module (e.g. the error types of fmt / errors)
			v, _ := env.eval(x.Args[0])
			if _, ok := c.decls["ty.extern"]; !ok {
				c.declare("ty.extern", sInt)
				c.typeIDs["ty.extern"] = nil
			}
			return BoolV{and(not(eq(asInt(v), "0")), eq(c.typeOfTerm(asInt(v)), "ty.extern"))}, tBool
		case "seqeq":
			a, at := env.eval(x.Args[0])
			b, _ := env.eval(x.Args[1])
			return BoolV{env.seqEq(a, b, at)}, tBool
		case "sameslice":
			a, _ := env.eval(x.Args[0])
			b, _ := env.eval(x.Args[1])
			as, bs := a.(SliceV), b.(SliceV)
			return BoolV{and(eq(as.Ref, bs.Ref), eq(as.Off, bs.Off), eq(as.Len, bs.Len))}, tBool
		case "refof":
			a, _ := env.eval(x.Args[0])
			return IntV{a.(SliceV).Ref}, tInt
		case "offof":
			a, _ := env.eval(x.Args[0])
			return IntV{a.(SliceV).Off}, tInt
		case "int":
			a, _ := env.eval(x.Args[0])
			return IntV{asInt(a)}, tInt
		case "strof": // string value of a byte slice
			a, _ := env.eval(x.Args[0])
			return c.bytesToString(env.s, a.(SliceV)), types.Typ[types.String]
		case "ghost":
			lit, ok := x.Args[0].(*ast.BasicLit)
			if !ok {
				cfail("ghost needs a string literal")
			}
			name, _ := strconv.Unquote(lit.Value)
			return IntV{c.heapGet(env.s, "X."+name, sInt)}, tInt
		case "mapsum", "sumvisited":
			// mapsum(m, k, e): the sum of e over the keys k of map m.   sumvisited(k, e): the sum of e over the keys visited so
			// far by the map-range loop whose clause is being evaluated. Finite sums over sets (spec library block msum):
			// the summand becomes an array (a function of the enclosing binders) defined pointwise.
			var setTerm, nilGuard string
			var kArg, eArg ast.Expr
			if id.Name == "mapsum" {
				if len(x.Args) != 3 {
					cfail("mapsum(m, k, e)")
				}
				mv, mt := env.eval(x.Args[0])
				u, ok := mt.Underlying().(*types.Map)
				if !ok {
					cfail("mapsum: not a map")
				}
				mref := asInt(mv)
				setTerm = sel(c.heapGet(env.s, "D."+mapKeyName(u), sA2), mref)
				nilGuard = eq(mref, "0")
				kArg, eArg = x.Args[1], x.Args[2]
			} else {
				if len(x.Args) != 2 {
					cfail("sumvisited(k, e)")
				}
				setTerm = c.heapGet(env.s, fmt.Sprintf("L.visited%d", c.curLoop), sA1)
				nilGuard = "false"
				kArg, eArg = x.Args[0], x.Args[1]
			}
			kid, ok := kArg.(*ast.Ident)
			if !ok {
				cfail("%s: bound variable expected", id.Name)
			}
			inner := *env
			inner.names = map[string]bound{}
			for k, v := range env.names {
				inner.names[k] = v
			}
			c.nq++
			qn := fmt.Sprintf("%s_q%d", kid.Name, c.nq)
			inner.names[kid.Name] = bound{IntV{qn}, tInt}
			inner.qvars = append(append([]string(nil), env.qvars...), qn)
			c.inQuant++
			bv, _ := inner.eval(eArg)
			c.inQuant--
			body := asInt(bv)
			// canonical key: binder names replaced by positions
			canon := body
			for i, q := range inner.qvars {
				canon = strings.ReplaceAll(canon, q, fmt.Sprintf("$%d", i))
			}
			if c.sumFuns == nil {
				c.sumFuns = map[string]string{}
			}
			fn, seen := c.sumFuns[canon]
			if !seen {
				fn = fmt.Sprintf("sumfun~%d", len(c.sumFuns)+1)
				c.sumFuns[canon] = fn
				args := strings.TrimSpace(strings.Repeat("Int ", len(env.qvars)))
				c.decls[fn] = "FUN (" + args + ") " + sA1
				c.declOrder = append(c.declOrder, fn)
			}
			arr := fn
			if len(env.qvars) > 0 {
				arr = app(fn, env.qvars...)
			}
			env.s.assume(forall(inner.qvars, "(! "+eq(sel(arr, qn), body)+" :pattern ((select "+arr+" "+qn+")))"))
			return IntV{ite(nilGuard, "0", app("msum", arr, setTerm))}, tInt
		case "nvisited":
			// nvisited(): number of iterations begun by the map-range loop whose clause is being evaluated; nvisited(N): of loop N
			ord := c.curLoop
			if len(x.Args) == 1 {
				if lit, ok := x.Args[0].(*ast.BasicLit); ok {
					ord, _ = strconv.Atoi(lit.Value)
				}
			}
			return IntV{c.heapGet(env.s, fmt.Sprintf("L.count%d", ord), sInt)}, types.Typ[types.Int]
		case "visited":
			// visited(k): key k has been visited by the map-range loop whose clause is being evaluated
			kv, _ := env.eval(x.Args[0])
			vis := c.heapGet(env.s, fmt.Sprintf("L.visited%d", c.curLoop), sA1)
			return BoolV{eq(sel(vis, c.keyTerm(kv)), "1")}, tBool
		case "ref":
			// ref(x.f): identity of the struct-valued field f embedded in the heap object x (e.g. a sync.Once); ref(p) = p
			if se, ok := x.Args[0].(*ast.SelectorExpr); ok {
				bv, bt := env.eval(se.X)
				obj, idx, _ := types.LookupFieldOrMethod(bt, true, c.pkgOfType(bt), se.Sel.Name)
				if f, ok := obj.(*types.Var); ok && c.isStructByValueField(f) {
					saved := c.checkPanics
					c.checkPanics = false
					href, hst, _ := c.walkPath(env.s, bv, bt, idx[:len(idx)-1], nil)
					c.checkPanics = saved
					if href != "" {
						return IntV{c.subObject(env.s, href, hst, f)}, types.NewPointer(f.Type())
					}
				}
			}
			if id, ok := x.Args[0].(*ast.Ident); ok && env.own {
				if lv := c.lookupLocal(id.Name, env.pos); lv != nil && c.boxed(lv) {
					if bv, ok := env.s.vars[lv]; ok {
						return IntV{asInt(bv)}, types.NewPointer(lv.Type())
					}
				}
			}
			v, t := env.eval(x.Args[0])
			return IntV{asInt(v)}, t
		case "total":
			// total(bufs): number of payload bytes held by a slice of byte slices (uninterpreted function of the slice value;
			// the lengths of the inner slices are taken to be immutable)
			v, _ := env.eval(x.Args[0])
			sv, ok := v.(SliceV)
			if !ok {
				cfail("total: needs a slice of byte slices")
			}
			c.declareFun("buftotal", 3, sInt)
			t := app("buftotal", sv.Ref, sv.Off, sv.Len)
			env.s.assume(le("0", t))
			if c.inQuant == 0 {
				env.s.assume(implies(eq(sv.Len, "0"), eq(t, "0")))
				// a single buffer: its own length (definitional unfolding of the sum for one element)
				lenMem := c.heapGet(env.s, "M.[]byte#len", sA2)
				env.s.assume(implies(eq(sv.Len, "1"), eq(t, sel(sel(lenMem, sv.Ref), c.elemIndex(sv.Off, "0")))))
			}
			return IntV{t}, tInt
		case "fresh":
			// fresh(x): x was allocated by the function (in a callee's ensures: the caller may treat it as its own allocation)
			v, _ := env.eval(x.Args[0])
			ref := ""
			switch xv := v.(type) {
			case SliceV:
				ref = xv.Ref
			case IntV:
				ref = xv.T
			default:
				cfail("fresh: needs a reference or slice")
			}
			if env.own {
				// obligation side: syntactic check that the value comes from an allocation of this function
				if c.freshRefs[ref] {
					return BoolV{"true"}, tBool
				}
				return BoolV{"false"}, tBool
			}
			c.freshRefs[ref] = true
			c.nfresh++
			c.allocSeq[ref] = c.nfresh
			al := c.heapGet(env.s, "X.alloc", sA1)
			pre := al
			if env.old != nil {
				pre = c.heapGet(env.old, "X.alloc", sA1)
			}
			c.heapSetQuiet(env.s, "X.alloc", sA1, store(al, ref, "1"))
			return BoolV{and(lt("0", ref), eq(sel(pre, ref), "0"))}, tBool
		case "allocated":
			v, _ := env.eval(x.Args[0])
			ref := ""
			switch xv := v.(type) {
			case SliceV:
				ref = xv.Ref
			case IntV:
				ref = xv.T
			default:
				cfail("allocated: needs a reference or slice")
			}
			al := c.heapGet(env.s, "X.alloc", sA1)
			return BoolV{or(eq(ref, "0"), eq(sel(al, ref), "1"))}, tBool
		case "ghostold":
			// ghostold("m", i): the ghost map m as it was at function entry (or before the call), at the CURRENT value of i
			lit, ok := x.Args[0].(*ast.BasicLit)
			if !ok {
				cfail("ghostold needs a string literal")
			}
			name, _ := strconv.Unquote(lit.Value)
			iv, _ := env.eval(x.Args[1])
			if env.old == nil {
				cfail("ghostold: no old state")
			}
			return IntV{sel(c.heapGet(env.old, "X."+name, sA1), asInt(iv))}, tInt
		case "ghostat2":
			lit, ok := x.Args[0].(*ast.BasicLit)
			if !ok {
				cfail("ghostat2 needs a string literal")
			}
			name, _ := strconv.Unquote(lit.Value)
			iv, _ := env.eval(x.Args[1])
			jv, _ := env.eval(x.Args[2])
			return IntV{sel(sel(c.heapGet(env.s, "X."+name, sA2), asInt(iv)), asInt(jv))}, tInt
		case "athead", "atentry":
			// athead(n, e): e evaluated in the state at the head of the current iteration of loop n
			// atentry(n, e): e evaluated in the state in which loop n was entered (before its first iteration)
			lit, ok := x.Args[0].(*ast.BasicLit)
			if !ok {
				cfail("athead needs a loop ordinal or header text")
			}
			n, _ := strconv.Atoi(lit.Value)
			if lit.Kind == token.STRING {
				name, _ := strconv.Unquote(lit.Value)
				n = 0
				for ord, h := range c.loopNames {
					if h == name {
						n = ord
					}
				}
				if n == 0 {
					cfail("athead: no loop named %q", name)
				}
			}
			hs, ok := c.loopHeads[n]
			if id.Name == "atentry" {
				hs, ok = c.loopEntry[n]
			}
			if !ok {
				if c.dry > 0 {
					return env.eval(x.Args[1])
				}
				cfail("%s(%d): loop has no clauses or is not active", id.Name, n)
			}
			tmpH := *hs
			tmpH.assumes = env.s.assumes
			hv, ht := env.withState(&tmpH).eval(x.Args[1])
			env.s.assumes = tmpH.assumes
			return hv, ht
		case "recvd":
			// recvd(ch, v): the struct value v was received from channel ch
			chv, _ := env.eval(x.Args[0])
			vv, vt := env.eval(x.Args[1])
			return BoolV{c.recvdPred(asInt(chv), vv, vt)}, tBool
		case "pbwf":
			return BoolV{c.pbReqFacts(env.s)}, tBool
		case "variant":
			// value of the decreases-expression of loop n at its current head (usable inside that loop's body)
			lit, ok := x.Args[0].(*ast.BasicLit)
			if !ok {
				cfail("variant needs a loop ordinal")
			}
			n, _ := strconv.Atoi(lit.Value)
			v, ok := c.variantAt[n]
			if !ok {
				cfail("variant(%d): loop has no decreases clause or is not active", n)
			}
			return IntV{v}, tInt
		case "ghostat":
			lit, ok := x.Args[0].(*ast.BasicLit)
			if !ok {
				cfail("ghostat needs a string literal")
			}
			name, _ := strconv.Unquote(lit.Value)
			iv, _ := env.eval(x.Args[1])
			return IntV{sel(c.heapGet(env.s, "X."+name, sA1), asInt(iv))}, tInt
		}
		if pd, ok := preds[id.Name]; ok {
			if len(x.Args) != len(pd.Params) {
				cfail("pred %s expects %d arguments", pd.Name, len(pd.Params))
			}
			inner := &CEnv{c: c, s: env.s, old: env.old, names: map[string]bound{}, oldNames: env.oldNames}
			if p := c.eng.pkgByName[pd.Pkg]; p != nil {
				inner.pkgScope = p.Scope()
			}
			for i, a := range x.Args {
				v, t := env.eval(a)
				inner.names[pd.Params[i]] = bound{v, t}
			}
			return inner.eval(pd.Expr)
		}
		// Go function of the package (pure contract)?
		if env.pkgScope != nil {
			if fn, ok := env.pkgScope.Lookup(id.Name).(*types.Func); ok {
				return env.pureCall(fn, nil, nil, x.Args)
			}
		}
		// spec function
		if sf, ok := c.eng.specFuns[id.Name]; ok {
			return env.specApp(id.Name, sf, x.Args)
		}
		cfail("unknown function %s in contract", id.Name)
	}
	if se, ok := x.Fun.(*ast.SelectorExpr); ok {
		// pkg.Func(...) ?
		if id, ok := se.X.(*ast.Ident); ok {
			if _, isVar := env.lookup(id.Name); !isVar {
				if p := c.eng.pkgByName[id.Name]; p != nil {
					if fn, ok := p.Scope().Lookup(se.Sel.Name).(*types.Func); ok {
						return env.pureCall(fn, nil, nil, x.Args)
					}
					cfail("unknown %s.%s", id.Name, se.Sel.Name)
				}
			}
		}
		// method call on a value
		bv, bt := env.eval(se.X)
		obj, idx, _ := types.LookupFieldOrMethod(bt, true, c.pkgOfType(bt), se.Sel.Name)
		fn, ok := obj.(*types.Func)
		if !ok {
			cfail("no method %s on %s", se.Sel.Name, typeKey(bt))
		}
		if len(idx) > 1 {
			saved := c.checkPanics
			c.checkPanics = false
			ref, st, sv := c.walkPath(env.s, bv, bt, idx[:len(idx)-1], nil)
			c.checkPanics = saved
			if ref != "" {
				bv, bt = IntV{ref}, types.NewPointer(st)
			} else {
				bv, bt = sv, st
			}
		}
		return env.pureCall(fn, bv, bt, x.Args)
	}
	cfail("unsupported call in contract")
	return nil, nil
}

func (env *CEnv) seqEq(a, b Value, at types.Type) string {
	c := env.c
	as, bs := a.(SliceV), b.(SliceV)
	elem := at.Underlying().(*types.Slice).Elem()
	var conj []string
	conj = append(conj, eq(as.Len, bs.Len))
	c.nq++
	k := fmt.Sprintf("k_q%d", c.nq)
	c.inQuant++
	defer func() { c.inQuant-- }()
	for _, l := range leaves(elem) {
		m := c.heapGet(env.s, memKey(elem)+l, sA2)
		conj = append(conj, forall([]string{k}, implies(and(le("0", k), lt(k, as.Len)), eq(sel(sel(m, as.Ref), c.elemIndex(as.Off, k)), sel(sel(m, bs.Ref), c.elemIndex(bs.Off, k))))))
	}
	return and(conj...)
}

// pureCall applies a Go function inside a contract expression: allowed for `pure` contracts and pb getters.
func (env *CEnv) pureCall(fn *types.Func, recv Value, recvT types.Type, argExprs []ast.Expr) (Value, types.Type) {
	c := env.c
	sig := fn.Type().(*types.Signature)
	var args []Value
	for _, a := range argExprs {
		v, _ := env.eval(a)
		args = append(args, v)
	}
	key := funcKey(fn)
	if fn.Pkg() != nil && fn.Pkg().Name() == "pb" && strings.HasPrefix(fn.Name(), "Get") && recv != nil {
		if v, ok := c.pbGetter(env.s, fn, recv); ok {
			return v, sig.Results().At(0).Type()
		}
	}
	k := c.eng.contracts[key]
	if k == nil || !k.Pure {
		cfail("function %s used in a contract is not declared pure", key)
	}
	if sig.Results().Len() != 1 {
		cfail("pure function %s must have one result", key)
	}
	c.calleesUsed[key] = true
	rt := sig.Results().At(0).Type()
	val := c.pureApp(env.s, key, 0, rt, recv, args, sig)
	// instantiate the pure function's own postconditions for this application
	if len(k.Ensures) > 0 && c.pureDepth < 2 {
		c.pureDepth++
		ce := c.calleeEnv(k, sig, fn, recv, args, env.s)
		name := sig.Results().At(0).Name()
		if len(k.Results) > 0 {
			name = k.Results[0]
		}
		if name == "" {
			name = "r0"
		}
		ce.names[name] = bound{val, rt}
		ce.names["r0"] = bound{val, rt}
		ce.old = env.s
		for _, e := range k.Ensures {
			g := c.cevalBoolEnv(e.Expr, ce)
			if len(env.qvars) > 0 {
				// under binders the instance is a fact about every value of the bound variables
				g = forall(env.qvars, g)
			}
			env.s.assume(g)
		}
		c.pureDepth--
	}
	return val, rt
}

type specFun struct {
	params []string // sorts
	ret    string
}

// specApp applies an SMT function of the spec library. Byte-slice arguments expand to (array, lo, hi).
func (env *CEnv) specApp(name string, sf specFun, argExprs []ast.Expr) (Value, types.Type) {
	c := env.c
	var flat []string
	for _, a := range argExprs {
		v, t := env.eval(a)
		switch xv := v.(type) {
		case SliceV:
			elem := t.Underlying().(*types.Slice).Elem()
			m := c.heapGet(env.s, memKey(elem), sA2)
			flat = append(flat, sel(m, xv.Ref), xv.Off, add(xv.Off, xv.Len))
		case BoolV:
			flat = append(flat, xv.T)
		case IntV:
			// pass Int where Bool expected?
			flat = append(flat, xv.T)
		default:
			cfail("cannot pass %T to spec function %s", v, name)
		}
	}
	if len(flat) != len(sf.params) {
		cfail("spec function %s expects %d SMT arguments, got %d", name, len(sf.params), len(flat))
	}
	for i, so := range sf.params {
		if so == sBool && !isBoolTerm(flat[i]) {
			// leave as is; caller's responsibility
		}
	}
	c.usedSpec[name] = true
	t := app(name, flat...)
	if len(flat) == 0 {
		t = name
	}
	if sf.ret == sBool {
		return BoolV{t}, tBool
	}
	return IntV{t}, tInt
}

func isBoolTerm(s string) bool { return true }
