package main

// Property checks: collect the functions and lemmas of a property, discharge, report, write evidence.

import (
	"encoding/json"
	"fmt"
	"go/ast"
	"go/token"
	"go/types"
	"os"
	"os/exec"
	"path/filepath"
	"sort"
	"strings"
	"time"
)

func (e *Engine) propsOf(k *Contract) []string {
	set := map[string]bool{}
	for _, p := range k.Props {
		set[p] = true
	}
	add := func(tags []string) {
		for _, t := range tags {
			set[t] = true
		}
	}
	for _, cl := range k.Ensures {
		add(cl.Tags)
	}
	add(k.PanicTags)
	loops := []*LoopSpec{}
	for _, l := range k.Loops {
		loops = append(loops, l)
	}
	for _, l := range k.LoopsByText {
		loops = append(loops, l)
	}
	for _, l := range loops {
		for _, cl := range l.Invariants {
			add(cl.Tags)
		}
		for _, cl := range l.Asserts {
			add(cl.Tags)
		}
		for _, cl := range l.Steps {
			add(cl.Tags)
		}
		if l.Decreases != nil {
			add(l.Decreases.Tags)
		}
	}
	for _, as := range k.Ats {
		for _, a := range as {
			add(a.Tags)
		}
	}
	var out []string
	for p := range set {
		out = append(out, p)
	}
	sort.Strings(out)
	return out
}

func hasTag(tags []string, p string) bool {
	for _, t := range tags {
		if t == p {
			return true
		}
	}
	return false
}

type KnownFinding struct {
	Property   string `json:"property"`
	Status     string `json:"status"` // known | fixed
	Obligation string `json:"obligation"`
	Commit     string `json:"commit,omitempty"`
	What       string `json:"what"`
	Finding    string `json:"finding,omitempty"`
}

type KnownFile struct {
	Findings []KnownFinding `json:"findings"`
}

func loadKnown(verif string) KnownFile {
	var kf KnownFile
	data, err := os.ReadFile(filepath.Join(verif, "known_findings.json"))
	if err == nil {
		json.Unmarshal(data, &kf)
	}
	return kf
}

type oblReport struct {
	Name    string  `json:"name"`
	Kind    string  `json:"kind"`
	Verdict string  `json:"verdict"`
	Solver  string  `json:"solver,omitempty"`
	Seconds float64 `json:"seconds"`
	Agree   int     `json:"agree,omitempty"`
	Pos     string  `json:"pos"`
}

type funcReport struct {
	Name        string   `json:"name"`
	File        string   `json:"file"`
	Clauses     int      `json:"contract_clauses"`
	Loops       int      `json:"loops_with_invariants"`
	Obligations int      `json:"obligations"`
	Abstracted  []string `json:"abstracted_statements"`
	Trusted     string   `json:"trusted,omitempty"`
}

func runCheck(repo, verif, prop, tier string, seed int) int {
	start := time.Now()
	thorough := tier == "thorough"
	timeout := 10
	if thorough {
		timeout = 60
	}
	e := newEngine(repo, verif)
	e.callProbes = thorough || os.Getenv("GOWP_CALL_PROBES") != ""
	outBase := verif
	if sc := os.Getenv("GOWP_SCRATCH"); sc != "" {
		outBase = sc
	}
	e.outBase = outBase
	fail := func(what string, err error) int {
		// a check that cannot decide must not pass
		rp := filepath.Join(outBase, "out", "replay", prop, "tool-failure.json")
		writeJSON(rp, map[string]interface{}{"property": prop, "obligation": "tool-failure(" + what + ")", "error": err.Error()})
		fmt.Printf("tool failure: %s: %v\n", what, err)
		fmt.Printf("VIOLATION property=%s replay=%s no-failing-input-found\n", prop, rp)
		return 1
	}
	if err := e.load(); err != nil {
		return fail("load", err)
	}
	if err := e.loadContracts(); err != nil {
		return fail("contracts", err)
	}
	known := loadKnown(verif)

	var keys []string
	for _, k := range sortedKeys(e.contracts) {
		if _, inRepo := e.funcs[k]; !inRepo {
			// dependency contract or binding error
			if strings.HasPrefix(e.contracts[k].File, repo) && !strings.Contains(k, "$") && e.contracts[k].Trusted == "" && !e.contracts[k].Pure {
				if hasTag(e.propsOf(e.contracts[k]), prop) {
					return fail("contract-binding("+k+")", fmt.Errorf("contract for %s does not bind to a function in /repo", k))
				}
			}
			continue
		}
		if hasTag(e.propsOf(e.contracts[k]), prop) {
			keys = append(keys, k)
		}
	}
	if len(keys) == 0 {
		return fail("no-functions", fmt.Errorf("no function under contract is tagged with %s", prop))
	}
	vcdir := filepath.Join(outBase, "out", "vc", prop)
	os.RemoveAll(vcdir)
	os.RemoveAll(filepath.Join(outBase, "out", "replay", prop))

	var all []*Oblig
	var funcs []funcReport
	assumptions := map[string]bool{}
	var bindingErrs []string
	usedContracts := map[string]bool{}
	supportFuncs := map[string]bool{}
	claimed := claimedProps(verif)
	// obligations of every in-repo function those depend on (callees with contracts) are checked too
	inSet := map[string]bool{}
	for _, k := range keys {
		inSet[k] = true
	}
	for qi := 0; qi < len(keys); qi++ {
		key := keys[qi]
		c, err := e.verifyFunc(key)
		if err != nil {
			return fail("vcgen("+key+")", err)
		}
		fi := e.funcs[key]
		fr := funcReport{Name: fi.fn.FullName(), File: shortFile(e.fset.Position(fi.decl.Pos()).Filename), Clauses: c.con.NClauses,
			Loops: len(c.con.Loops), Abstracted: c.abstracted, Trusted: c.con.Trusted}
		for _, o := range c.obls {
			// obligations of this property: tagged with it, or untagged support obligations; for functions pulled in
			// as dependencies every obligation counts (the caller relies on their whole contract)
			// ... except those that belong to another claimed property only: they are decided (and reported) by that
			// property's check, so that a change breaking one property does not raise alarms under the others
			tags := o.Tags
			if len(tags) == 0 && supportFuncs[key] {
				// untagged obligations (frame, lock balance, ...) of a function pulled in as a dependency belong to the
				// properties its own contract is tagged with
				tags = e.propsOf(c.con)
			}
			if len(o.Tags) == 0 && !supportFuncs[key] || len(tags) == 0 || hasTag(tags, prop) || (supportFuncs[key] && !allClaimedElsewhere(tags, claimed)) {
				all = append(all, o)
				fr.Obligations++
			}
		}
		funcs = append(funcs, fr)
		for a := range c.assumptions {
			assumptions[a] = true
		}
		for _, b := range c.bindingErrors {
			// a clause tagged only with other claimed properties is reported by their checks
			if strings.HasPrefix(b, "[") {
				if i := strings.Index(b, "] "); i > 0 {
					tags := strings.Split(b[1:i], ",")
					if !hasTag(tags, prop) && allClaimedElsewhere(tags, claimed) {
						continue
					}
				}
			}
			bindingErrs = append(bindingErrs, key+": "+b)
		}
		for cu := range c.calleesUsed {
			usedContracts[cu] = true
			if _, inRepo := e.funcs[cu]; inRepo && !inSet[cu] && e.contracts[cu] != nil && e.contracts[cu].Trusted == "" {
				inSet[cu] = true
				keys = append(keys, cu)
				supportFuncs[cu] = true
			}
		}
	}
	lemmaObls, lemmaNames := e.lemmaObligations(prop)
	all = append(all, lemmaObls...)
	all = append(all, e.immutableObligations(prop)...)
	all = append(all, e.atomicObligations(prop)...)
	e.dischargeAll(all, vcdir, timeout, thorough)

	// verdicts
	nObl, nDis, nSmoke, nVac := 0, 0, 0, 0
	var per []oblReport
	var failed []*Oblig
	var solverSecs float64
	for _, o := range all {
		solverSecs += o.Secs
		if o.Smoke {
			nSmoke++
			if o.Verdict == "vacuous" {
				nVac++
				failed = append(failed, o)
			}
			continue
		}
		nObl++
		if o.Verdict == "unsat" {
			nDis++
		} else {
			failed = append(failed, o)
		}
		per = append(per, oblReport{Name: o.Name, Kind: o.Kind, Verdict: o.Verdict, Solver: o.Solver, Seconds: round3(o.Secs), Agree: o.Agree,
			Pos: fmt.Sprintf("%s:%d", shortFile(o.Pos.Filename), o.Pos.Line)})
	}
	rc := 0
	violations := 0
	var knownHit []string
	for _, b := range bindingErrs {
		rp := filepath.Join(outBase, "out", "replay", prop, sanitizeFile("contract-binding "+b)+".json")
		writeJSON(rp, map[string]interface{}{"property": prop, "obligation": "contract-binding", "detail": b})
		fmt.Printf("contract-binding: %s\n", b)
		fmt.Printf("VIOLATION property=%s replay=%s no-failing-input-found\n", prop, rp)
		rc = 1
		violations++
	}
	for _, o := range failed {
		if kfi := matchKnown(known, prop, o.Name); kfi != nil {
			fmt.Printf("KNOWN-FINDING: property=%s %s (%s)\n", prop, kfi.What, o.Name)
			knownHit = append(knownHit, o.Name)
			continue
		}
		rp, confirmed := e.reportFailure(prop, o, thorough)
		tail := ""
		if !confirmed {
			tail = " no-failing-input-found"
		}
		fmt.Printf("FAILED %s [%s] at %s:%d\n", o.Name, o.Verdict, shortFile(o.Pos.Filename), o.Pos.Line)
		fmt.Printf("VIOLATION property=%s replay=%s%s\n", prop, rp, tail)
		rc = 1
		violations++
	}
	if nObl == 0 {
		return fail("vacuity", fmt.Errorf("zero obligations generated for %s", prop))
	}

	// evidence
	var samples []interface{}
	for i, o := range all {
		if o.Smoke {
			continue
		}
		if len(samples) < 6 && (i%maxInt(1, len(all)/6) == 0) {
			samples = append(samples, map[string]interface{}{"obligation": o.Name, "smt": relTo(verif, o.SMTFile), "verdict": o.Verdict, "solver": o.Solver,
				"seconds": round3(o.Secs), "hypotheses": o.Assumes.len(), "goal": truncate(o.Goal, 300)})
		}
	}
	var asm []string
	for a := range assumptions {
		asm = append(asm, a)
	}
	sort.Strings(asm)
	var trusted []string
	var assumedContracts []string
	for cu := range usedContracts {
		if strings.HasPrefix(cu, "uncontracted:") {
			continue
		}
		k := e.contracts[cu]
		if k == nil {
			continue
		}
		if _, inRepo := e.funcs[cu]; !inRepo {
			assumedContracts = append(assumedContracts, cu)
		} else if k.Trusted != "" {
			trusted = append(trusted, cu+" (trusted: "+k.Trusted+")")
		}
		if len(k.Hides) > 0 {
			trusted = append(trusted, cu+" (frame assumption: effects on "+strings.Join(k.Hides, ", ")+" are not visible to callers: "+k.HidesWhy+")")
		}
	}
	sort.Strings(assumedContracts)
	sort.Strings(trusted)
	var uncontracted []string
	for cu := range usedContracts {
		if strings.HasPrefix(cu, "uncontracted:") {
			uncontracted = append(uncontracted, strings.TrimPrefix(cu, "uncontracted:"))
		}
	}
	sort.Strings(uncontracted)
	tb := []string{
		"gowp: own VC generator over go/ast+go/types (symbolic execution with invariant cuts); guarded by the must-fail corpus in selftest/",
		"SMT solvers z3 5.1.0 (z3-new), z3 4.8.12, cvc5 1.0.3",
		"spec library /verif/spec/prelude.smt2 (axioms listed there) and assumed dependency contracts /verif/spec/*.spec",
		"Go semantics as modelled (DESIGN.md 2.3): integers mathematical with explicit wrap-around for unsigned types; slice len/cap <= 2^47",
	}
	for _, t := range trusted {
		tb = append(tb, "trusted in-repo contract: "+t)
	}
	cov := map[string]interface{}{
		"obligations":              nObl,
		"discharged":               nDis,
		"checker_cmd":              fmt.Sprintf("./check %s %s", prop, tier),
		"trusted_base":             tb,
		"samples":                  samples,
		"functions_under_contract": funcs,
		"per_obligation":           per,
		"lemmas":                   lemmaNames,
		"smoke":                    map[string]int{"probes": nSmoke, "unexpected_unsat": nVac},
		"solver_seconds_total":     round3(solverSecs),
		"assumed_dependency_contracts": assumedContracts,
		"uncontracted_callees":     uncontracted,
		"known_findings_hit":       knownHit,
		"not_decided":              notDecided[prop],
		"exhaustive":               false,
	}
	if !thorough {
		var qr thoroughResult
		if b := e.boundedComplements(prop, false, &qr); len(b) > 0 {
			cov["bounded"] = b
		}
		if qr.violations > 0 {
			rc = 1
			violations += qr.violations
		}
	}
	if thorough {
		extra := e.thoroughExtras(prop, seed)
		for k, v := range extra.cov {
			cov[k] = v
		}
		if extra.violations > 0 {
			rc = 1
			violations += extra.violations
		}
	}
	ev := map[string]interface{}{
		"property_id": prop, "tier": tier, "seed": seed, "level": "proof", "coverage": cov,
		"assumptions": append(asm, standingAssumptions...), "wall_s": round3(time.Since(start).Seconds()), "violations": violations,
	}
	if err := writeJSON(filepath.Join(outBase, "evidence", prop+".json"), ev); err != nil {
		return fail("evidence", err)
	}
	fmt.Printf("%s %s: %d functions, %d obligations, %d discharged, %d smoke probes (%d vacuous), %d known findings, %.1fs\n",
		prop, tier, len(keys), nObl, nDis, nSmoke, nVac, len(knownHit), time.Since(start).Seconds())
	return rc
}

var standingAssumptions = []string{
	"A2 mutex-protected sections are atomic; nothing about goroutine schedules is proved",
	"A7 test hooks (sleepAndIncreaseBackoffOverride, establishRegionOverride) are nil where a contract says so",
	"A8 logging, metrics and tracing do not touch tracked state",
	"A10 solver soundness",
}

var notDecided = map[string]string{}

func maxInt(a, b int) int {
	if a > b {
		return a
	}
	return b
}

func round3(f float64) float64 { return float64(int(f*1000+0.5)) / 1000 }

func relTo(base, p string) string {
	if r, err := filepath.Rel(base, p); err == nil {
		return r
	}
	return p
}

func matchKnown(kf KnownFile, prop, obl string) *KnownFinding {
	for i := range kf.Findings {
		f := &kf.Findings[i]
		if f.Status == "known" && f.Obligation == obl && (f.Property == prop || f.Property == "*") {
			return f
		}
	}
	return nil
}

// reportFailure writes the replay file of a failed obligation and tries to replay the counterexample.
func (e *Engine) reportFailure(prop string, o *Oblig, thorough bool) (string, bool) {
	rp := filepath.Join(e.outBase, "out", "replay", prop, sanitizeFile(o.Name)+".json")
	rec := map[string]interface{}{
		"property": prop, "obligation": o.Name, "kind": o.Kind, "function": o.Func,
		"pos": fmt.Sprintf("%s:%d:%d", shortFile(o.Pos.Filename), o.Pos.Line, o.Pos.Column), "expr": o.Expr,
		"smt": o.SMTFile, "verdict": o.Verdict, "solver": o.Solver, "solver_output": o.Output, "goal": truncate(o.Goal, 2000),
	}
	confirmed := false
	if o.Verdict == "sat" && o.Model != nil {
		rec["model"] = o.Model
	}
	if rr := e.tryReplay(prop, o); rr != nil {
		rec["replay"] = rr
		if c, ok := rr["confirmed"].(bool); ok && c {
			confirmed = true
		}
	}
	writeJSON(rp, rec)
	return rp, confirmed
}

type thoroughResult struct {
	cov        map[string]interface{}
	violations int
}

func (e *Engine) thoroughExtras(prop string, seed int) thoroughResult {
	res := thoroughResult{cov: map[string]interface{}{}}
	// 1. the property's part of the must-fail / must-pass corpus, each against a scratch copy of the tree. A missed
	//    mutant does not make the property false on this tree, so it does not change the exit code; it is reported
	//    (SELFTEST-MISSED) and recorded: the check is then known to be blind to that change.
	if os.Getenv("GOWP_NO_MUTANTS") == "" {
		mres := runMutants(e.repo, e.verif, "", map[string]bool{prop: true})
		var rows []map[string]interface{}
		caught, missed, falseAlarm := 0, 0, 0
		for _, r := range mres {
			if r.Property != prop {
				continue
			}
			rows = append(rows, map[string]interface{}{"id": r.ID, "kind": r.Kind, "outcome": r.Outcome, "failed_obligations": firstN(r.Failed, 3)})
			switch r.Outcome {
			case "caught", "pass":
				caught++
			case "missed":
				missed++
				fmt.Printf("SELFTEST-MISSED property=%s mutant=%s (the check does not notice this change)\n", prop, r.ID)
			case "false-alarm":
				falseAlarm++
				fmt.Printf("SELFTEST-FALSE-ALARM property=%s mutant=%s (an equivalent edit is reported)\n", prop, r.ID)
			}
		}
		res.cov["mutants"] = map[string]interface{}{"run": len(rows), "behaved_as_expected": caught, "missed": missed, "false_alarms": falseAlarm, "results": rows}
	}
	// 2. bounded complements (labelled bounded; never counted as discharged)
	bounded := e.boundedComplements(prop, true, &res)
	if len(bounded) > 0 {
		res.cov["bounded"] = bounded
	}
	return res
}

// boundedComplements runs the bounded stand-ins of a property. They are labelled bounded in the evidence and never
// added to the discharged obligations; a failing one is a violation with a concrete failing input (the test output).
func (e *Engine) boundedComplements(prop string, thorough bool, res *thoroughResult) []map[string]interface{} {
	var bounded []map[string]interface{}
	report := func(b map[string]interface{}, name, what string) {
		bounded = append(bounded, b)
		if b["result"] == "fail" {
			res.violations++
			rp := filepath.Join(e.outBase, "out", "replay", prop, "bounded-"+name+".json")
			b["obligation"] = "bounded:" + name
			writeJSON(rp, b)
			fmt.Printf("bounded-%s: %s\n", name, what)
			fmt.Printf("VIOLATION property=%s replay=%s\n", prop, rp)
		}
	}
	if thorough && (prop == "C16" || prop == "C01" || prop == "C06") {
		b := e.lcpConformance()
		bounded = append(bounded, b)
		if b["result"] == "disagree" {
			res.violations++
			rp := filepath.Join(e.outBase, "out", "replay", prop, "bounded-lcp-conformance.json")
			writeJSON(rp, b)
			fmt.Printf("bounded-lcp-conformance: the lcp axiom of the spec library disagrees with the reference on a ground instance\n")
			fmt.Printf("VIOLATION property=%s replay=%s no-failing-input-found\n", prop, rp)
		}
	}
	if thorough && prop == "C15" {
		report(e.boundedOverlay("c15-roundtrip", "c15_roundtrip_test.go.txt", "region", "TestBoundedC15",
			"real snappy codec through compressCellblocks/decompressCellblocks: 14 payload sizes around chunk boundaries x 3 byte patterns x 4 buffer splittings"),
			"c15-roundtrip", "a compressed cellblock stream did not decompress to the bytes written")
	}
	if prop == "C08" || prop == "C01" || prop == "C04" {
		// the inductive cache invariant and the overlap search (B-tree enumeration) are not under contract: this
		// stand-in runs on every tier of C08 and of C01 (for the "start <= key" half of routing)
		// (under C01 the harness checks what routing relies on - contents, eviction, lookups - and leaves the dead marks to C08;
		// C04 - requests survive splits and merges - relies on the eviction and the dead marks: full harness)
		e.boundedProp = prop
		report(e.boundedOverlay("c08-cache", "c08_cache_test.go.txt", ".", "TestBoundedC08",
			"every sequence of up to 3 put/del operations over 36 regions (3 tables, one of them namespaced, two prefix-related x 6 ranges over keys \"\",a,b x 2 ids) on the real keyRegionCache against a brute-force interval model; 18 lookups after every step against brute-force containment"),
			"c08-cache", "the location cache disagrees with the brute-force interval model")
	}
	return bounded
}

func firstN(xs []string, n int) []string {
	if len(xs) > n {
		return xs[:n]
	}
	return xs
}

// boundedOverlay runs an in-package test kept under /verif/bounded against the real code (go test -overlay).
func (e *Engine) boundedOverlay(name, file, pkgDir, pattern, bound string) map[string]interface{} {
	out := map[string]interface{}{"name": name, "kind": "bounded", "bound": bound, "file": file, "package": pkgDir, "pattern": pattern}
	dir, err := os.MkdirTemp("", "gowp-bounded-")
	if err != nil {
		out["result"] = "not-run"
		return out
	}
	defer os.RemoveAll(dir)
	data, err := os.ReadFile(filepath.Join(e.verif, "bounded", file))
	if err != nil {
		out["result"] = "not-run"
		return out
	}
	tf := filepath.Join(dir, "zz_bounded_test.go")
	os.WriteFile(tf, data, 0o644)
	ov := map[string]interface{}{"Replace": map[string]string{filepath.Join(e.repo, pkgDir, "zz_bounded_test.go"): tf}}
	ovf := filepath.Join(dir, "ov.json")
	writeJSON(ovf, ov)
	cmd := exec.Command("go", "test", "-overlay", ovf, "-vet=off", "-count=1", "-timeout", "300s", "-v", "-run", pattern, "./"+pkgDir+"/")
	cmd.Dir = e.repo
	cmd.Env = append(os.Environ(), "GOFLAGS=-mod=mod", "GOPROXY=off", "GOSUMDB=off", "GOTOOLCHAIN=local", "VERIF_BOUNDED_PROP="+e.boundedProp)
	o, err := cmd.CombinedOutput()
	text := string(o)
	switch {
	case err == nil && strings.Contains(text, "--- PASS"):
		out["result"] = "pass"
	case strings.Contains(text, "--- FAIL") || strings.Contains(text, "panic:"):
		out["result"] = "fail"
		out["output"] = lastLines(text, 25)
	default:
		out["result"] = "not-run"
		out["output"] = lastLines(text, 10)
	}
	for _, l := range strings.Split(text, "\n") {
		if i := strings.Index(l, "BOUNDED "); i >= 0 {
			out["covered"] = strings.TrimSpace(l[i+8:])
		}
	}
	return out
}

func lastLines(s string, n int) string {
	ls := strings.Split(strings.TrimRight(s, "\n"), "\n")
	if len(ls) > n {
		ls = ls[len(ls)-n:]
	}
	return strings.Join(ls, "\n")
}

// lcpConformance: the lcp axiom (A9) must determine lcp, lexlt and lexeq to the values of an executable reference on
// every pair of byte strings of length <= 3 over {0,1,255}, at a non-zero offset; and the instance must be satisfiable.
// Bounded guard of the spec library; proves no property.
func (e *Engine) lcpConformance() map[string]interface{} {
	out := map[string]interface{}{"name": "lcp-axiom-conformance", "kind": "bounded",
		"bound": "all pairs of byte strings of length <= 3 over {0,1,255}; first operand at array offset 1"}
	alpha := []int{0, 1, 255}
	var strs [][]int
	var gen func(cur []int, n int)
	gen = func(cur []int, n int) {
		strs = append(strs, append([]int(nil), cur...))
		if n == 0 {
			return
		}
		for _, a := range alpha {
			gen(append(cur, a), n-1)
		}
	}
	gen(nil, 3)
	var b strings.Builder
	b.WriteString("(set-logic ALL)\n")
	b.WriteString(e.preludeFor("(lcp (lexlt (lexeq"))
	arr := func(xs []int, off int) string {
		t := "((as const (Array Int Int)) 7)"
		for i, x := range xs {
			t = fmt.Sprintf("(store %s %d %d)", t, off+i, x)
		}
		return t
	}
	n := 0
	for _, x := range strs {
		for _, y := range strs {
			p := 0
			for p < len(x) && p < len(y) && x[p] == y[p] {
				p++
			}
			lt := (p == len(x) && p < len(y)) || (p < len(x) && p < len(y) && x[p] < y[p])
			eqv := p == len(x) && p == len(y)
			A, B := arr(x, 1), arr(y, 0)
			args := fmt.Sprintf("%s 1 %d %s 0 %d", A, 1+len(x), B, len(y))
			fmt.Fprintf(&b, "(push)(assert (not (and (= (lcp %s) %d) (= (lexlt %s) %v) (= (lexeq %s) %v))))(check-sat)(pop)\n", args, p, args, lt, args, eqv)
			n++
		}
	}
	b.WriteString("(push)(assert (= (lcp " + arr([]int{1, 2}, 1) + " 1 3 " + arr([]int{1, 3}, 0) + " 0 2) 1))(check-sat)(pop)\n")
	dir := filepath.Join(e.outBase, "out", "bounded")
	os.MkdirAll(dir, 0o755)
	f := filepath.Join(dir, "lcp_conformance.smt2")
	os.WriteFile(f, []byte(b.String()), 0o644)
	r := runSolver(solvers[0], f, 240, "")
	lines := strings.Fields(r.output)
	out["instances"] = n
	out["seconds"] = round3(r.secs)
	if len(lines) != n+1 {
		out["result"] = "not-run"
		out["output"] = firstLines(r.output, 5)
		return out
	}
	// instances z3-new leaves undecided are put to the other solvers one by one
	text := b.String()
	var head, pushes []string
	for _, l := range strings.Split(text, "\n") {
		if strings.HasPrefix(l, "(push)") {
			pushes = append(pushes, l)
		} else {
			head = append(head, l)
		}
	}
	determined, refuted, undecided := 0, 0, 0
	for i := 0; i < n; i++ {
		v := lines[i]
		if v != "unsat" && v != "sat" {
			one := filepath.Join(dir, fmt.Sprintf("lcp_conformance_%d.smt2", i))
			os.WriteFile(one, []byte(strings.Join(head, "\n")+"\n"+pushes[i]+"\n"), 0o644)
			for _, sp := range solvers[1:] {
				rr := runSolver(sp, one, 20, "")
				if rr.verdict == "unsat" || rr.verdict == "sat" {
					v = rr.verdict
					break
				}
			}
			os.Remove(one)
		}
		switch v {
		case "unsat":
			determined++
		case "sat":
			refuted++
		default:
			undecided++
		}
	}
	out["determined"] = determined
	out["undecided"] = undecided
	out["refuted"] = refuted
	switch {
	case refuted > 0 || lines[n] == "unsat":
		out["result"] = "disagree" // the axiom admits another value, or the axioms are contradictory on a ground instance
	case undecided > 0:
		out["result"] = "agree-partially"
	default:
		out["result"] = "agree"
	}
	return out
}

// lemmaObligations: spec-level lemmas listed in /verif/spec/lemmas.txt: "<name> <props,comma> <file.smt2> <expect>"
func (e *Engine) lemmaObligations(prop string) ([]*Oblig, []string) {
	data, err := os.ReadFile(filepath.Join(e.verif, "spec", "lemmas.txt"))
	if err != nil {
		return nil, nil
	}
	var obls []*Oblig
	var names []string
	for _, line := range strings.Split(string(data), "\n") {
		f := strings.Fields(line)
		if len(f) < 3 || strings.HasPrefix(f[0], "#") {
			continue
		}
		if !hasTag(strings.Split(f[1], ","), prop) {
			continue
		}
		o := &Oblig{Name: "lemma:" + f[0], Kind: "lemma", Func: "spec", Expr: f[2], lemmaFile: filepath.Join(e.verif, "spec", f[2])}
		if len(f) > 3 && f[3] == "smoke" {
			o.Smoke = true // the hypotheses of the lemma family must be satisfiable
			o.Name = "lemma-smoke:" + f[0]
		}
		obls = append(obls, o)
		names = append(names, f[0])
	}
	return obls, names
}

// immutableObligations: one obligation per field declared immutable for this property; decided by a scan of the typed AST
// (assignments, inc/dec, address-of, composite literals) of every package of the module.
func (e *Engine) immutableObligations(prop string) []*Oblig {
	var out []*Oblig
	for _, im := range immutables {
		if !hasTag(im.Tags, prop) {
			continue
		}
		t := e.typeByName(im.Type)
		if t == nil {
			out = append(out, &Oblig{Name: "immutable:" + im.Type, Kind: "static", Func: im.Type, Verdict: "error", Solver: "go/types scan",
				Output: "unknown type " + im.Type, Pos: token.Position{Filename: im.File, Line: im.Line}})
			continue
		}
		st, _ := t.Underlying().(*types.Struct)
		for _, fname := range im.Fields {
			o := &Oblig{Name: "immutable:" + im.Type + "." + fname + "(written only in " + im.In + ")", Kind: "static", Func: im.Type,
				Verdict: "unsat", Solver: "go/types scan", Pos: token.Position{Filename: im.File, Line: im.Line}, Tags: im.Tags}
			var fv *types.Var
			if st != nil {
				for i := 0; i < st.NumFields(); i++ {
					if st.Field(i).Name() == fname {
						fv = st.Field(i)
					}
				}
			}
			if fv == nil {
				o.Verdict, o.Output = "error", "no such field"
			} else if pos, what := e.fieldWrittenOutside(fv, t, im.In); what != "" {
				o.Verdict = "sat"
				o.Output = what
				o.Pos = pos
			}
			out = append(out, o)
		}
	}
	return out
}

func (e *Engine) fieldWrittenOutside(fv *types.Var, owner types.Type, allowed string) (token.Position, string) {
	var pos token.Position
	what := ""
	report := func(p *Pkg, n ast.Node, w string) {
		if what == "" {
			pos = p.Fset.Position(n.Pos())
			what = w + " at " + shortFile(pos.Filename) + ":" + fmt.Sprint(pos.Line)
		}
	}
	for _, p := range e.pkgs {
		for _, f := range p.Syntax {
			if strings.HasSuffix(p.Fset.Position(f.Pos()).Filename, "_test.go") {
				continue
			}
			for _, d := range f.Decls {
				fd, ok := d.(*ast.FuncDecl)
				inAllowed := false
				if ok {
					if fo, ok := p.TypesInfo.Defs[fd.Name].(*types.Func); ok && funcKey(fo) == allowed {
						inAllowed = true
					}
				}
				isField := func(x ast.Expr) bool {
					se, ok := unparen(x).(*ast.SelectorExpr)
					if !ok {
						return false
					}
					return p.TypesInfo.Uses[se.Sel] == fv
				}
				ast.Inspect(d, func(n ast.Node) bool {
					switch x := n.(type) {
					case *ast.AssignStmt:
						for _, l := range x.Lhs {
							if isField(l) && !inAllowed {
								report(p, x, "assignment to the field")
							}
						}
					case *ast.IncDecStmt:
						if isField(x.X) && !inAllowed {
							report(p, x, "inc/dec of the field")
						}
					case *ast.UnaryExpr:
						if x.Op == token.AND && isField(x.X) && !inAllowed {
							report(p, x, "address of the field taken")
						}
					case *ast.CompositeLit:
						tt := p.TypesInfo.TypeOf(x)
						if tt == nil || !types.Identical(tt, owner) || inAllowed {
							return true
						}
						for _, el := range x.Elts {
							if kv, ok := el.(*ast.KeyValueExpr); ok {
								if id, ok := kv.Key.(*ast.Ident); ok && p.TypesInfo.Uses[id] == fv {
									report(p, kv, "composite literal sets the field")
								}
							} else {
								report(p, x, "positional composite literal of the type")
							}
						}
					}
					return true
				})
			}
		}
	}
	return pos, what
}

func allClaimedElsewhere(tags []string, claimed map[string]bool) bool {
	for _, t := range tags {
		if t == "WIP" {
			continue
		}
		if !claimed[t] {
			return false
		}
	}
	return true
}

// atomicObligations: fields declared `atomic` are touched only through sync/atomic (as &x.f arguments).
func (e *Engine) atomicObligations(prop string) []*Oblig {
	var out []*Oblig
	for _, a := range atomics {
		if !hasTag(a.Tags, prop) {
			continue
		}
		t := e.typeByName(a.Type)
		var st *types.Struct
		if t != nil {
			st, _ = t.Underlying().(*types.Struct)
		}
		for _, fname := range a.Fields {
			o := &Oblig{Name: "atomic:" + a.Type + "." + fname + "(accessed only through sync/atomic)", Kind: "static", Func: a.Type,
				Verdict: "unsat", Solver: "go/types scan", Pos: token.Position{Filename: a.File, Line: a.Line}, Tags: a.Tags}
			var fv *types.Var
			if st != nil {
				for i := 0; i < st.NumFields(); i++ {
					if st.Field(i).Name() == fname {
						fv = st.Field(i)
					}
				}
			}
			if fv == nil {
				o.Verdict, o.Output = "error", "no such field"
				out = append(out, o)
				continue
			}
			for _, p := range e.pkgs {
				for _, f := range p.Syntax {
					if strings.HasSuffix(p.Fset.Position(f.Pos()).Filename, "_test.go") {
						continue
					}
					// selector occurrences that are operands of & inside a call to sync/atomic are fine
					ok := map[*ast.SelectorExpr]bool{}
					ast.Inspect(f, func(n ast.Node) bool {
						call, isCall := n.(*ast.CallExpr)
						if !isCall {
							return true
						}
						se, isSel := call.Fun.(*ast.SelectorExpr)
						if !isSel {
							return true
						}
						fo, _ := p.TypesInfo.Uses[se.Sel].(*types.Func)
						if fo == nil || fo.Pkg() == nil || fo.Pkg().Path() != "sync/atomic" {
							return true
						}
						for _, arg := range call.Args {
							if u, isU := unparen(arg).(*ast.UnaryExpr); isU && u.Op == token.AND {
								if fs, isF := unparen(u.X).(*ast.SelectorExpr); isF {
									ok[fs] = true
								}
							}
						}
						return true
					})
					ast.Inspect(f, func(n ast.Node) bool {
						if fs, isF := n.(*ast.SelectorExpr); isF && p.TypesInfo.Uses[fs.Sel] == fv && !ok[fs] && o.Verdict == "unsat" {
							pos := p.Fset.Position(fs.Pos())
							o.Verdict = "sat"
							o.Output = "plain access at " + shortFile(pos.Filename) + ":" + fmt.Sprint(pos.Line)
							o.Pos = pos
						}
						if kv, isKV := n.(*ast.KeyValueExpr); isKV {
							if id, isID := kv.Key.(*ast.Ident); isID && p.TypesInfo.Uses[id] == fv {
								_ = id // initialisation in a composite literal happens before the object is shared
							}
						}
						return true
					})
				}
			}
			out = append(out, o)
		}
	}
	return out
}
