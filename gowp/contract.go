package main

// Parser for //@ contract lines kept in comment-only files.

import (
	"bufio"
	"fmt"
	"go/ast"
	"go/parser"
	"os"
	"regexp"
	"sort"
	"strconv"
	"strings"
)

type Clause struct {
	Tags []string
	Text string
	Expr ast.Expr
	File string
	Line int
}

type LoopSpec struct {
	Invariants []Clause
	Decreases  *Clause
	Asserts    []Clause // checked at loop exit
	Steps      []Clause // two-state clauses (may use athead(n, e)): checked at the end of every iteration and at every exit from inside the loop
}

type AtClause struct {
	Kind string // assert | assume | use
	Clause
}

type Contract struct {
	Key      string
	Params   []string // only for dependency contracts
	Results  []string
	Requires []Clause
	Ensures  []Clause
	Panics   string // "", never, unchecked
	PanicTags []string
	Ovf      bool
	Modifies []string
	HasModifies bool
	Loops    map[int]*LoopSpec
	LoopsByText map[string]*LoopSpec // keyed by a prefix of the loop header text; resolved to ordinals per function
	Ats      map[string][]AtClause
	Pure     bool
	Trusted  string
	DeadReturns map[int]string // returns that are unreachable under the contract (precondition or earlier checks), with the reason
	Hides    []string // heap keys whose effects by this function are not reported to callers (assumption, with reason)
	SpawnOnly     []string // callee names that this function may only start as goroutines (a direct call would block it)
	NoCall        []string // callee names this function must not call at all (e.g. lock-taking accessors of state it updates)
	NoCallTags    []string
	NoCallWhy     string
	SpawnOnlyTags []string
	SpawnOnlyWhy  string
	HidesWhy string
	Props    []string
	Ghosts   []string
	File     string
	Line     int
	NClauses int
	Inline   bool
}

// Pred is a named contract-level predicate (macro): `pred pkg.name(a, b) = expr`.
type Pred struct {
	Name   string
	Pkg    string
	Params []string
	Expr   ast.Expr
	Text   string
}

var predRe = regexp.MustCompile(`^pred\s+(\w+)\.(\w+)\(([^)]*)\)\s*=\s*(.*)$`)

var preds = map[string]*Pred{}

// Immutable: `//@ immutable[C01] region.info: name, startKey in region.NewInfo` - the listed fields are written only by
// the named function (construction); checked syntactically over the typed AST of the whole module on every run.
type Immutable struct {
	Tags   []string
	Type   string // pkg.Type
	Fields []string
	In     string // function key allowed to write
	File   string
	Line   int
}

// Guarded: `//@ guarded[C02] region.client: id, sent by sentM` - the listed fields are read and written only while a mutex
// is held (lock discipline; the executing goroutine's ghost count of held mutexes must be positive at every access in a
// function under contract). Which mutex is not tracked - the `by` part documents it.
type Guarded struct {
	Tags   []string
	Type   string
	Fields []string
	By     string
}

// AtomicOnly: `//@ atomic[C02] region.client: id` - the listed fields are accessed only as &x.f arguments of sync/atomic
// functions (decided by a scan of the typed AST of the module, like `immutable`).
type AtomicOnly struct {
	Tags   []string
	Type   string
	Fields []string
	File   string
	Line   int
}

var atomics []*AtomicOnly
var atomicRe = regexp.MustCompile(`^atomic(\[[^\]]*\])?\s+([\w.]+)\s*:\s*(.*)$`)

var guardeds []*Guarded
var guardedRe = regexp.MustCompile(`^guarded(\[[^\]]*\])?\s+([\w.]+)\s*:\s*(.*?)\s+by\s+(\S+)$`)

var immutables []*Immutable
var immutableRe = regexp.MustCompile(`^immutable(\[[^\]]*\])?\s+([\w.]+)\s*:\s*(.*?)\s+in\s+(\S+)$`)

type Lemma struct {
	Name string
	Tags []string
	File string // smt2 file
	Expect string
}

var funcLineRe = regexp.MustCompile(`^func\s+(\S+?)(\(([^)]*)\)\s*(\(([^)]*)\))?)?\s*$`)
var tagRe = regexp.MustCompile(`^(\w[\w-]*)\[([^\]]*)\]`)

func parseContractFile(path string, into map[string]*Contract) error {
	f, err := os.Open(path)
	if err != nil {
		return err
	}
	defer f.Close()
	sc := bufio.NewScanner(f)
	sc.Buffer(make([]byte, 1<<20), 1<<20)
	var cur *Contract
	lineNo := 0
	var pending string
	pendingLine := 0
	for sc.Scan() {
		lineNo++
		line := strings.TrimSpace(sc.Text())
		var body string
		switch {
		case strings.HasPrefix(line, "//@"):
			body = strings.TrimSpace(line[3:])
		case strings.HasPrefix(line, "// @"):
			body = strings.TrimSpace(line[4:])
		default:
			continue
		}
		if i := strings.Index(body, " //"); i >= 0 {
			body = strings.TrimSpace(body[:i])
		}
		if strings.HasPrefix(body, "//") || body == "" {
			continue
		}
		if strings.HasSuffix(body, "\\") {
			if pending == "" {
				pendingLine = lineNo
			}
			pending += strings.TrimSuffix(body, "\\") + " "
			continue
		}
		ln := lineNo
		if pending != "" {
			body = pending + body
			ln = pendingLine
			pending = ""
		}
		if strings.HasPrefix(body, "atomic") {
			m := atomicRe.FindStringSubmatch(body)
			if m == nil {
				return fmt.Errorf("%s:%d: bad atomic line %q", path, ln, body)
			}
			a := &AtomicOnly{Type: m[2], Fields: splitNames(m[3]), File: path, Line: ln}
			for _, t := range strings.Split(strings.Trim(m[1], "[]"), ",") {
				if t = strings.TrimSpace(t); t != "" {
					a.Tags = append(a.Tags, t)
				}
			}
			atomics = append(atomics, a)
			cur = nil
			continue
		}
		if strings.HasPrefix(body, "guarded") {
			m := guardedRe.FindStringSubmatch(body)
			if m == nil {
				return fmt.Errorf("%s:%d: bad guarded line %q", path, ln, body)
			}
			g := &Guarded{Type: m[2], Fields: splitNames(m[3]), By: m[4]}
			for _, t := range strings.Split(strings.Trim(m[1], "[]"), ",") {
				if t = strings.TrimSpace(t); t != "" {
					g.Tags = append(g.Tags, t)
				}
			}
			guardeds = append(guardeds, g)
			cur = nil
			continue
		}
		if strings.HasPrefix(body, "immutable") {
			m := immutableRe.FindStringSubmatch(body)
			if m == nil {
				return fmt.Errorf("%s:%d: bad immutable line %q", path, ln, body)
			}
			im := &Immutable{Type: m[2], Fields: splitNames(m[3]), In: m[4], File: path, Line: ln}
			for _, t := range strings.Split(strings.Trim(m[1], "[]"), ",") {
				if t = strings.TrimSpace(t); t != "" {
					im.Tags = append(im.Tags, t)
				}
			}
			immutables = append(immutables, im)
			cur = nil
			continue
		}
		if strings.HasPrefix(body, "pred ") {
			m := predRe.FindStringSubmatch(body)
			if m == nil {
				return fmt.Errorf("%s:%d: bad pred line %q", path, ln, body)
			}
			ex, err := parseCExpr(m[4])
			if err != nil {
				return fmt.Errorf("%s:%d: %v", path, ln, err)
			}
			preds[m[2]] = &Pred{Name: m[2], Pkg: m[1], Params: splitNames(m[3]), Expr: ex, Text: m[4]}
			cur = nil
			continue
		}
		if strings.HasPrefix(body, "func ") {
			m := funcLineRe.FindStringSubmatch(body)
			if m == nil {
				return fmt.Errorf("%s:%d: bad func line %q", path, ln, body)
			}
			cur = &Contract{Key: m[1], Loops: map[int]*LoopSpec{}, Ats: map[string][]AtClause{}, File: path, Line: ln}
			if m[2] != "" {
				cur.Params = splitNames(m[3])
				cur.Results = splitNames(m[5])
			}
			if _, dup := into[cur.Key]; dup {
				return fmt.Errorf("%s:%d: duplicate contract for %s", path, ln, cur.Key)
			}
			into[cur.Key] = cur
			continue
		}
		if cur == nil {
			return fmt.Errorf("%s:%d: clause outside func: %q", path, ln, body)
		}
		if err := parseClause(cur, body, path, ln); err != nil {
			return fmt.Errorf("%s:%d: %v", path, ln, err)
		}
		cur.NClauses++
	}
	return sc.Err()
}

func splitNames(s string) []string {
	var out []string
	for _, p := range strings.Split(s, ",") {
		p = strings.TrimSpace(p)
		if p == "" {
			continue
		}
		// allow "a []byte": keep the first word
		out = append(out, strings.Fields(p)[0])
	}
	return out
}

func splitTags(word string) (string, []string) {
	if m := tagRe.FindStringSubmatch(word); m != nil {
		var tags []string
		for _, t := range strings.Split(m[2], ",") {
			t = strings.TrimSpace(t)
			if t != "" {
				tags = append(tags, t)
			}
		}
		return m[1], tags
	}
	return word, nil
}

func parseClause(c *Contract, body, file string, ln int) error {
	head, rest := body, ""
	if i := strings.IndexAny(body, " \t"); i >= 0 {
		head, rest = body[:i], strings.TrimSpace(body[i+1:])
	}
	kw, tags := splitTags(head)
	mk := func(text string) (Clause, error) {
		e, err := parseCExpr(text)
		if err != nil {
			return Clause{}, fmt.Errorf("cannot parse %q: %v", text, err)
		}
		return Clause{Tags: tags, Text: text, Expr: e, File: file, Line: ln}, nil
	}
	switch kw {
	case "requires":
		cl, err := mk(rest)
		if err != nil {
			return err
		}
		c.Requires = append(c.Requires, cl)
	case "ensures":
		cl, err := mk(rest)
		if err != nil {
			return err
		}
		c.Ensures = append(c.Ensures, cl)
	case "panics":
		w, t := splitTags(strings.Fields(rest)[0])
		c.Panics = w
		c.PanicTags = t
		if tags != nil {
			c.PanicTags = tags
		}
	case "overflow":
		c.Ovf = rest == "checked"
	case "modifies":
		c.HasModifies = true
		for _, m := range splitTop(rest, ",") {
			m = strings.TrimSpace(m)
			if m != "" && m != "nothing" {
				c.Modifies = append(c.Modifies, m)
			}
		}
	case "dead":
		// dead return N "reason": this return cannot be reached under the contract (excluded by a precondition, or dead
		// code behind earlier checks); the per-return vacuity probe is not applied to it
		f := strings.Fields(rest)
		if len(f) < 2 || f[0] != "return" {
			return fmt.Errorf("dead clause: expected `dead return N \"reason\"`")
		}
		n, err := strconv.Atoi(f[1])
		if err != nil {
			return fmt.Errorf("dead clause: bad ordinal %q", f[1])
		}
		if c.DeadReturns == nil {
			c.DeadReturns = map[int]string{}
		}
		why := ""
		if i := strings.Index(rest, "\""); i >= 0 {
			why = strings.Trim(strings.TrimSpace(rest[i:]), "\"")
		}
		c.DeadReturns[n] = why
	case "nocall":
		// nocall[tags] <callee>, <callee> "reason": a call of these callees in this function is a failed obligation. Used for
		// atomicity: a function that tests and updates lock-protected state in one critical section must not take its decision
		// from an accessor that takes (and releases) the lock itself.
		if i := strings.Index(rest, "\""); i >= 0 {
			c.NoCallWhy = strings.Trim(strings.TrimSpace(rest[i:]), "\"")
			rest = rest[:i]
		}
		for _, m := range splitTop(rest, ",") {
			if m = strings.TrimSpace(m); m != "" {
				c.NoCall = append(c.NoCall, m)
			}
		}
		c.NoCallTags = tags
	case "spawnonly":
		// spawnonly[tags] <callee>, <callee> "reason": this function must not wait for these callees - it may start them with
		// `go` only. A direct (or deferred) call is a failed obligation; no `go` of the callee at all is a binding error.
		if i := strings.Index(rest, "\""); i >= 0 {
			c.SpawnOnlyWhy = strings.Trim(strings.TrimSpace(rest[i:]), "\"")
			rest = rest[:i]
		}
		for _, m := range splitTop(rest, ",") {
			if m = strings.TrimSpace(m); m != "" {
				c.SpawnOnly = append(c.SpawnOnly, m)
			}
		}
		c.SpawnOnlyTags = tags
	case "hides":
		// hides <key>, <key> "reason": effects on these ghost keys are scoped to the callee (nested operations counted
		// separately); callers see them unchanged. An assumption, reported as such.
		if i := strings.Index(rest, "\""); i >= 0 {
			c.HidesWhy = strings.Trim(strings.TrimSpace(rest[i:]), "\"")
			rest = rest[:i]
		}
		for _, m := range splitTop(rest, ",") {
			if m = strings.TrimSpace(m); m != "" {
				c.Hides = append(c.Hides, m)
			}
		}
	case "pure":
		c.Pure = true
	case "inline":
		c.Inline = true
	case "trusted":
		c.Trusted = strings.Trim(rest, `"`)
		if c.Trusted == "" {
			c.Trusted = "trusted"
		}
	case "props":
		for _, t := range strings.Split(rest, ",") {
			t = strings.TrimSpace(t)
			if t != "" {
				c.Props = append(c.Props, t)
			}
		}
	case "ghost":
		c.Ghosts = append(c.Ghosts, splitNames(rest)...)
	case "loop":
		var ls *LoopSpec
		if strings.HasPrefix(rest, "\"") {
			// loop "<header prefix>" <kind> <expr>
			end := strings.Index(rest[1:], "\"")
			if end < 0 {
				return fmt.Errorf("unterminated loop header text")
			}
			hdr := rest[1 : 1+end]
			after := rest[2+end:]
			if strings.HasPrefix(after, "#") { // "text"#k: the k-th loop (in source order) whose header starts with text
				j := 1
				for j < len(after) && after[j] >= '0' && after[j] <= '9' {
					j++
				}
				hdr += after[:j]
				after = after[j:]
			}
			rest = "0 " + strings.TrimSpace(after)
			if c.LoopsByText == nil {
				c.LoopsByText = map[string]*LoopSpec{}
			}
			ls = c.LoopsByText[hdr]
			if ls == nil {
				ls = &LoopSpec{}
				c.LoopsByText[hdr] = ls
			}
		}
		f := strings.Fields(rest)
		if len(f) < 3 {
			return fmt.Errorf("bad loop clause")
		}
		n, err := strconv.Atoi(f[0])
		if err != nil {
			return err
		}
		what, wtags := splitTags(f[1])
		if wtags != nil {
			tags = wtags
		}
		text := strings.TrimSpace(strings.SplitN(rest, f[1], 2)[1])
		if ls == nil {
			ls = c.Loops[n]
			if ls == nil {
				ls = &LoopSpec{}
				c.Loops[n] = ls
			}
		}
		cl, err := mk(text)
		if err != nil {
			return err
		}
		switch what {
		case "invariant":
			ls.Invariants = append(ls.Invariants, cl)
		case "decreases":
			ls.Decreases = &cl
		case "exit-assert":
			ls.Asserts = append(ls.Asserts, cl)
		case "step":
			ls.Steps = append(ls.Steps, cl)
		default:
			return fmt.Errorf("bad loop clause kind %q", what)
		}
	case "at":
		// at <label> assert|assume|use <expr>
		f := strings.Fields(rest)
		if len(f) < 3 {
			return fmt.Errorf("bad at clause")
		}
		label := f[0]
		idx := 1
		if _, err := strconv.Atoi(f[1]); err == nil { // "make 2" / "return 3"
			label = f[0] + " " + f[1]
			idx = 2
		} else if f[0] == "call" || f[0] == "after" { // "call name#k", "after name#k"
			label = f[0] + " " + f[1]
			idx = 2
		}
		kindw, ktags := splitTags(f[idx])
		if ktags != nil {
			tags = ktags
		}
		text := strings.TrimSpace(strings.SplitN(rest, f[idx], 2)[1])
		cl, err := mk(text)
		if err != nil {
			return err
		}
		c.Ats[label] = append(c.Ats[label], AtClause{Kind: kindw, Clause: cl})
	default:
		return fmt.Errorf("unknown clause %q", kw)
	}
	return nil
}

// parseCExpr parses a contract expression: Go expression syntax plus `==>` (lowest precedence,
// right associative), rewritten to implies(a, b) before go/parser sees it.
func parseCExpr(text string) (ast.Expr, error) {
	return parser.ParseExpr(rewriteImplies(text))
}

func rewriteImplies(s string) string {
	// process parenthesised groups recursively, then split args at depth-0 commas and `==>`
	var out strings.Builder
	i := 0
	for i < len(s) {
		ch := s[i]
		if ch == '"' || ch == '\'' || ch == '`' {
			j := i + 1
			for j < len(s) && s[j] != ch {
				if s[j] == '\\' && ch != '`' {
					j++
				}
				j++
			}
			if j >= len(s) {
				j = len(s) - 1
			}
			out.WriteString(s[i : j+1])
			i = j + 1
			continue
		}
		if ch == '(' || ch == '[' {
			closer := byte(')')
			if ch == '[' {
				closer = ']'
			}
			d := 0
			j := i
			for ; j < len(s); j++ {
				if s[j] == ch {
					d++
				} else if s[j] == closer {
					d--
					if d == 0 {
						break
					}
				}
			}
			if j >= len(s) {
				out.WriteString(s[i:])
				break
			}
			inner := s[i+1 : j]
			out.WriteByte(ch)
			out.WriteString(rewriteArgs(inner))
			out.WriteByte(closer)
			i = j + 1
			continue
		}
		out.WriteByte(ch)
		i++
	}
	return splitImp(out.String())
}

func rewriteArgs(inner string) string {
	parts := splitTop(inner, ",")
	for k, p := range parts {
		parts[k] = rewriteImplies(p)
	}
	return strings.Join(parts, ",")
}

// splitTop splits s at depth-0 occurrences of sep (outside brackets and quotes).
func splitTop(s, sep string) []string {
	var parts []string
	d := 0
	last := 0
	for i := 0; i < len(s); i++ {
		switch s[i] {
		case '(', '[', '{':
			d++
		case ')', ']', '}':
			d--
		case '"', '\'', '`':
			q := s[i]
			i++
			for i < len(s) && s[i] != q {
				if s[i] == '\\' && q != '`' {
					i++
				}
				i++
			}
		default:
			if d == 0 && strings.HasPrefix(s[i:], sep) {
				parts = append(parts, s[last:i])
				last = i + len(sep)
				i += len(sep) - 1
			}
		}
	}
	parts = append(parts, s[last:])
	return parts
}

func splitImp(s string) string {
	parts := splitTop(s, "==>")
	if len(parts) == 1 {
		return s
	}
	// right associative
	res := strings.TrimSpace(parts[len(parts)-1])
	for i := len(parts) - 2; i >= 0; i-- {
		res = "implies(" + strings.TrimSpace(parts[i]) + ", " + res + ")"
	}
	return res
}

func sortedKeys[V any](m map[string]V) []string {
	var ks []string
	for k := range m {
		ks = append(ks, k)
	}
	sort.Strings(ks)
	return ks
}
