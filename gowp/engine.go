package main

// Loading /repo, contract tables, per-function verification driver.

import (
	"bytes"
	"fmt"
	"go/ast"
	"go/printer"
	"go/token"
	"go/types"
	"os"
	"path/filepath"
	"regexp"
	"sort"
	"strconv"
	"strings"

	"golang.org/x/tools/go/packages"
)

type Pkg = packages.Package

type funcInfo struct {
	decl *ast.FuncDecl
	pkg  *Pkg
	fn   *types.Func
}

type Engine struct {
	callProbes bool // thorough tier: a vacuity probe after every contracted call (did assuming its postconditions kill the path?)
	repo      string
	verif     string
	outBase   string
	boundedProp string // property the bounded complement is being run for (passed to the harness)
	fset      *token.FileSet
	pkgs      []*Pkg
	pkgByName map[string]*types.Package
	modPath   string
	contracts map[string]*Contract
	funcs     map[string]*funcInfo
	funcByObj map[*types.Func]*funcInfo

	boxedVars       map[*types.Var]bool
	constGlobals    map[*types.Var]bool
	nonNilGlobals   map[*types.Var]bool
	distinctGlobals map[*types.Var]bool
	idxVars         map[*ast.RangeStmt]*types.Var
	contentMutated  map[*types.Var]bool
	globalInits     map[*types.Var]ast.Expr
	globalInitPkg   map[*types.Var]*Pkg

	specFuns   map[string]specFun
	specConsts map[string]string
	prelude    []*preludeBlock
	heapSorts  map[string]string
	lemmas     []*Lemma
}

func newEngine(repo, verif string) *Engine {
	return &Engine{repo: repo, verif: verif, contracts: map[string]*Contract{}, funcs: map[string]*funcInfo{}, funcByObj: map[*types.Func]*funcInfo{},
		pkgByName: map[string]*types.Package{}, boxedVars: map[*types.Var]bool{}, constGlobals: map[*types.Var]bool{},
		nonNilGlobals: map[*types.Var]bool{}, distinctGlobals: map[*types.Var]bool{}, idxVars: map[*ast.RangeStmt]*types.Var{},
		contentMutated: map[*types.Var]bool{}, globalInits: map[*types.Var]ast.Expr{}, globalInitPkg: map[*types.Var]*Pkg{},
		specFuns: map[string]specFun{}, specConsts: map[string]string{}, heapSorts: map[string]string{}}
}

func (e *Engine) load() error {
	cfg := &packages.Config{Mode: packages.NeedName | packages.NeedSyntax | packages.NeedTypes | packages.NeedTypesInfo | packages.NeedFiles |
		packages.NeedImports | packages.NeedDeps | packages.NeedModule, Dir: e.repo, BuildFlags: []string{"-tags=verif"},
		Env: append(os.Environ(), "GOFLAGS=-mod=mod", "GOPROXY=off", "GOSUMDB=off", "GOTOOLCHAIN=local")}
	pkgs, err := packages.Load(cfg, ".", "./region", "./hrpc", "./compression/...", "./pb")
	if err != nil {
		return err
	}
	for _, p := range pkgs {
		for _, er := range p.Errors {
			return fmt.Errorf("load %s: %v", p.PkgPath, er)
		}
	}
	e.pkgs = pkgs
	if len(pkgs) > 0 {
		e.fset = pkgs[0].Fset
		if pkgs[0].Module != nil {
			e.modPath = pkgs[0].Module.Path
		}
	}
	if e.modPath == "" {
		e.modPath = "github.com/tsuna/gohbase"
	}
	// name -> package (repo packages first, then dependencies)
	for _, p := range pkgs {
		e.pkgByName[p.Name] = p.Types
	}
	packages.Visit(pkgs, nil, func(p *Pkg) {
		if _, ok := e.pkgByName[p.Name]; !ok && p.Types != nil {
			e.pkgByName[p.Name] = p.Types
		}
	})
	for _, p := range pkgs {
		for _, f := range p.Syntax {
			for _, d := range f.Decls {
				fd, ok := d.(*ast.FuncDecl)
				if !ok {
					continue
				}
				fn, _ := p.TypesInfo.Defs[fd.Name].(*types.Func)
				if fn == nil {
					continue
				}
				fi := &funcInfo{decl: fd, pkg: p, fn: fn}
				e.funcs[funcKey(fn)] = fi
				e.funcByObj[fn] = fi
			}
		}
	}
	e.scanGlobals()
	e.scanBoxed()
	return nil
}

func (e *Engine) declOf(fn *types.Func) (*ast.FuncDecl, *Pkg) {
	if fi := e.funcByObj[fn.Origin()]; fi != nil {
		return fi.decl, fi.pkg
	}
	return nil, nil
}

func (e *Engine) autoInline(fn *types.Func) bool { return false }

func (e *Engine) nodeText(n ast.Node) string {
	if n == nil {
		return ""
	}
	var b bytes.Buffer
	printer.Fprint(&b, e.fset, n)
	s := b.String()
	s = strings.Join(strings.Fields(s), " ")
	if len(s) > 70 {
		s = s[:67] + "..."
	}
	return s
}

func (e *Engine) exprString(x ast.Expr) string {
	var b bytes.Buffer
	printer.Fprint(&b, token.NewFileSet(), x)
	return b.String()
}

func (e *Engine) typeByName(name string) types.Type {
	ptr := false
	if strings.HasPrefix(name, "*") {
		ptr = true
		name = name[1:]
	}
	i := strings.LastIndex(name, ".")
	if i < 0 {
		return nil
	}
	p := e.pkgByName[name[:i]]
	if p == nil {
		return nil
	}
	obj, ok := p.Scope().Lookup(name[i+1:]).(*types.TypeName)
	if !ok {
		return nil
	}
	if ptr {
		return types.NewPointer(obj.Type())
	}
	return obj.Type()
}

func (e *Engine) setHeapSort(k, so string) { e.heapSorts[k] = so }

// scanGlobals finds package-level variables that are never assigned after their declaration.
func (e *Engine) scanGlobals() {
	assigned := map[*types.Var]bool{}
	inits := map[*types.Var]ast.Expr{}
	for _, p := range e.pkgs {
		info := p.TypesInfo
		markLhs := func(x ast.Expr) {
			switch l := unparen(x).(type) {
			case *ast.Ident:
				if v, ok := info.Uses[l].(*types.Var); ok {
					assigned[v] = true
				}
			case *ast.SelectorExpr:
				if v, ok := info.Uses[l.Sel].(*types.Var); ok {
					assigned[v] = true
				}
			case *ast.IndexExpr:
				// m[k] = v on a package-level map / slice: its contents are mutable
				switch b := unparen(l.X).(type) {
				case *ast.Ident:
					if v, ok := info.Uses[b].(*types.Var); ok {
						e.contentMutated[v] = true
					}
				case *ast.SelectorExpr:
					if v, ok := info.Uses[b.Sel].(*types.Var); ok {
						e.contentMutated[v] = true
					}
				}
			}
		}
		for _, f := range p.Syntax {
			for _, d := range f.Decls {
				if gd, ok := d.(*ast.GenDecl); ok && gd.Tok == token.VAR {
					for _, sp := range gd.Specs {
						vs := sp.(*ast.ValueSpec)
						for i, n := range vs.Names {
							if v, ok := info.Defs[n].(*types.Var); ok && i < len(vs.Values) && len(vs.Values) == len(vs.Names) {
								inits[v] = vs.Values[i]
								e.globalInits[v] = vs.Values[i]
								e.globalInitPkg[v] = p
							}
						}
					}
				}
			}
			ast.Inspect(f, func(n ast.Node) bool {
				switch x := n.(type) {
				case *ast.AssignStmt:
					for _, l := range x.Lhs {
						markLhs(l)
					}
				case *ast.IncDecStmt:
					markLhs(x.X)
				case *ast.UnaryExpr:
					if x.Op == token.AND {
						markLhs(x.X)
					}
				}
				return true
			})
		}
	}
	for _, p := range e.pkgs {
		sc := p.Types.Scope()
		for _, n := range sc.Names() {
			v, ok := sc.Lookup(n).(*types.Var)
			if !ok || assigned[v] {
				continue
			}
			// test hooks (function-typed overrides) are assigned by tests only; treated per assumption A7
			e.constGlobals[v] = true
			if in, ok := inits[v]; ok {
				switch x := unparen(in).(type) {
				case *ast.CallExpr:
					if isRefLike(v.Type()) {
						if _, isConv := p.TypesInfo.Types[x.Fun]; !isConv || !p.TypesInfo.Types[x.Fun].IsType() {
							e.nonNilGlobals[v] = true
							e.distinctGlobals[v] = true
						}
					}
				case *ast.UnaryExpr:
					if x.Op == token.AND {
						e.nonNilGlobals[v] = true
						e.distinctGlobals[v] = true
					}
				case *ast.CompositeLit:
					if isRefLike(v.Type()) {
						e.nonNilGlobals[v] = true
					}
				}
			}
		}
	}
	// dependency packages: exported error variables such as io.EOF, context.Canceled are constants too
	packages.Visit(e.pkgs, nil, func(p *Pkg) {
		if p.Types == nil || strings.HasPrefix(p.PkgPath, e.modPath) {
			return
		}
		sc := p.Types.Scope()
		for _, n := range sc.Names() {
			if v, ok := sc.Lookup(n).(*types.Var); ok && v.Exported() {
				if _, isIface := v.Type().Underlying().(*types.Interface); isIface && strings.HasPrefix(n, "Err") || n == "EOF" || n == "Canceled" || n == "DeadlineExceeded" {
					e.constGlobals[v] = true
					e.nonNilGlobals[v] = true
					e.distinctGlobals[v] = true
				}
			}
		}
	})
}

// scanBoxed finds locals whose address is taken (explicitly or through a pointer-receiver method call).
func (e *Engine) scanBoxed() {
	for _, p := range e.pkgs {
		info := p.TypesInfo
		for _, f := range p.Syntax {
			ast.Inspect(f, func(n ast.Node) bool {
				switch x := n.(type) {
				case *ast.UnaryExpr:
					if x.Op == token.AND {
						if id, ok := unparen(x.X).(*ast.Ident); ok {
							if v, ok := info.Uses[id].(*types.Var); ok && !(v.Parent() == v.Pkg().Scope()) && !v.IsField() {
								e.boxedVars[v] = true
							}
						}
					}
				case *ast.CallExpr:
					if se, ok := unparen(x.Fun).(*ast.SelectorExpr); ok {
						if sel, ok := info.Selections[se]; ok && sel.Kind() == types.MethodVal && len(sel.Index()) == 1 {
							sig := sel.Obj().Type().(*types.Signature)
							if _, ptrRecv := sig.Recv().Type().(*types.Pointer); ptrRecv {
								if id, ok := unparen(se.X).(*ast.Ident); ok {
									if v, ok := info.Uses[id].(*types.Var); ok && !v.IsField() && v.Pkg() != nil && v.Parent() != v.Pkg().Scope() {
										if _, isPtr := v.Type().Underlying().(*types.Pointer); !isPtr {
											if _, isIface := v.Type().Underlying().(*types.Interface); !isIface {
												e.boxedVars[v] = true
											}
										}
									}
								}
							}
						}
					}
				}
				return true
			})
		}
	}
}

func (e *Engine) rangeIdxVar(x *ast.RangeStmt, keyVar *types.Var) *types.Var {
	if keyVar != nil {
		return keyVar
	}
	if v, ok := e.idxVars[x]; ok {
		return v
	}
	v := types.NewVar(x.Pos(), nil, "range$idx", types.Typ[types.Int])
	e.idxVars[x] = v
	return v
}

// ---------------------------------------------------------------------------------------------
// contracts & spec library

func (e *Engine) loadContracts() error {
	var files []string
	filepath.Walk(e.repo, func(path string, info os.FileInfo, err error) error {
		if err == nil && !info.IsDir() && info.Name() == "zz_contracts_verif.go" {
			files = append(files, path)
		}
		return nil
	})
	sort.Strings(files)
	for _, f := range files {
		if err := parseContractFile(f, e.contracts); err != nil {
			return err
		}
	}
	deps, _ := filepath.Glob(filepath.Join(e.verif, "spec", "*.spec"))
	sort.Strings(deps)
	for _, f := range deps {
		if err := parseContractFile(f, e.contracts); err != nil {
			return err
		}
	}
	if err := e.validateKeys(); err != nil {
		return err
	}
	return e.loadPrelude(filepath.Join(e.verif, "spec", "prelude.smt2"))
}

// validateKeys: every contract must name an existing function or method of a loaded package (a key that binds to
// nothing would silently never be used).
func (e *Engine) validateKeys() error {
	known := map[string]bool{}
	packages.Visit(e.pkgs, nil, func(p *Pkg) {
		if p.Types == nil {
			return
		}
		sc := p.Types.Scope()
		for _, n := range sc.Names() {
			switch o := sc.Lookup(n).(type) {
			case *types.Func:
				known[funcKey(o)] = true
			case *types.TypeName:
				if named, ok := o.Type().(*types.Named); ok {
					for i := 0; i < named.NumMethods(); i++ {
						known[funcKey(named.Method(i))] = true
					}
					if it, ok := named.Underlying().(*types.Interface); ok {
						for i := 0; i < it.NumMethods(); i++ {
							known[p.Types.Name()+"."+o.Name()+"."+it.Method(i).Name()] = true
							known[funcKey(it.Method(i))] = true
						}
					}
				}
			}
		}
	})
	// methods of anonymous interface types (x.(interface{ M() })) are keyed by the interface's text
	for _, p := range e.pkgs {
		for _, f := range p.Syntax {
			ast.Inspect(f, func(n ast.Node) bool {
				if it, ok := n.(*ast.InterfaceType); ok {
					if t, ok := p.TypesInfo.TypeOf(it).(*types.Interface); ok {
						for i := 0; i < t.NumMethods(); i++ {
							known[funcKey(t.Method(i))] = true
						}
					}
				}
				return true
			})
		}
	}
	var bad []string
	for _, k := range sortedKeys(e.contracts) {
		if strings.Contains(k, "$") {
			continue // contract for a call through a function value
		}
		if !known[k] {
			bad = append(bad, k)
		}
	}
	if len(bad) > 0 {
		return fmt.Errorf("contract-binding: no function or method named %s", strings.Join(bad, ", "))
	}
	return nil
}

type preludeBlock struct {
	name string
	text string
	syms []string
}

var defRe = regexp.MustCompile(`\((define-fun|declare-fun|declare-const|define-sort|declare-sort)\s+([^\s()]+)`)

func (e *Engine) loadPrelude(path string) error {
	data, err := os.ReadFile(path)
	if err != nil {
		if os.IsNotExist(err) {
			return nil
		}
		return err
	}
	var cur *preludeBlock
	for _, line := range strings.Split(string(data), "\n") {
		if strings.HasPrefix(line, ";;; block") {
			cur = &preludeBlock{name: strings.TrimSpace(strings.TrimPrefix(line, ";;; block"))}
			e.prelude = append(e.prelude, cur)
			continue
		}
		if cur == nil {
			cur = &preludeBlock{name: "head"}
			e.prelude = append(e.prelude, cur)
		}
		cur.text += line + "\n"
	}
	for _, b := range e.prelude {
		for _, m := range defRe.FindAllStringSubmatch(b.text, -1) {
			b.syms = append(b.syms, m[2])
		}
		e.parseSigs(b.text)
	}
	return nil
}

// parseSigs extracts signatures of define-fun / declare-fun / declare-const.
func (e *Engine) parseSigs(text string) {
	toks := tokenizeSexp(text)
	for i := 0; i < len(toks); i++ {
		if toks[i] != "(" || i+2 >= len(toks) {
			continue
		}
		switch toks[i+1] {
		case "define-fun", "declare-fun":
			name := toks[i+2]
			j := i + 3
			if toks[j] != "(" {
				continue
			}
			// parameter list
			depth := 0
			var params []string
			k := j
			for ; k < len(toks); k++ {
				if toks[k] == "(" {
					depth++
				} else if toks[k] == ")" {
					depth--
					if depth == 0 {
						break
					}
				}
			}
			inner := toks[j+1 : k]
			if toks[i+1] == "define-fun" {
				// ((a S) (b S2))
				for p := 0; p < len(inner); {
					if inner[p] == "(" {
						// name then sort (sort may be compound)
						so, n := readSort(inner[p+2:])
						params = append(params, so)
						p += 2 + n + 1
					} else {
						p++
					}
				}
			} else {
				for p := 0; p < len(inner); {
					so, n := readSort(inner[p:])
					params = append(params, so)
					p += n
				}
			}
			ret, _ := readSort(toks[k+1:])
			e.specFuns[name] = specFun{params: params, ret: ret}
		case "declare-const":
			ret, _ := readSort(toks[i+3:])
			e.specConsts[toks[i+2]] = ret
		}
	}
}

func tokenizeSexp(s string) []string {
	var toks []string
	i := 0
	for i < len(s) {
		c := s[i]
		switch {
		case c == ';':
			for i < len(s) && s[i] != '\n' {
				i++
			}
		case c == '(' || c == ')':
			toks = append(toks, string(c))
			i++
		case c == ' ' || c == '\n' || c == '\t' || c == '\r':
			i++
		case c == '|':
			j := i + 1
			for j < len(s) && s[j] != '|' {
				j++
			}
			toks = append(toks, s[i:j+1])
			i = j + 1
		default:
			j := i
			for j < len(s) && !strings.ContainsRune("() \n\t\r;", rune(s[j])) {
				j++
			}
			toks = append(toks, s[i:j])
			i = j
		}
	}
	return toks
}

func readSort(toks []string) (string, int) {
	if len(toks) == 0 {
		return "", 0
	}
	if toks[0] != "(" {
		return toks[0], 1
	}
	depth := 0
	var parts []string
	for i, t := range toks {
		if t == "(" {
			depth++
		} else if t == ")" {
			depth--
		}
		parts = append(parts, t)
		if depth == 0 {
			s := strings.Join(parts, " ")
			s = strings.ReplaceAll(s, "( ", "(")
			s = strings.ReplaceAll(s, " )", ")")
			return s, i + 1
		}
	}
	return strings.Join(parts, " "), len(toks)
}

var symRe = regexp.MustCompile(`[^\s()]+`)

// preludeFor returns the prelude blocks needed by a query text (closed under symbol mention).
func (e *Engine) preludeFor(query string) string {
	used := map[string]bool{}
	for _, m := range symRe.FindAllString(query, -1) {
		used[m] = true
	}
	include := make([]bool, len(e.prelude))
	changed := true
	for changed {
		changed = false
		for i, b := range e.prelude {
			if include[i] {
				continue
			}
			need := b.name == "head"
			for _, s := range b.syms {
				if used[s] {
					need = true
					break
				}
			}
			if need {
				include[i] = true
				changed = true
				for _, m := range symRe.FindAllString(b.text, -1) {
					used[m] = true
				}
			}
		}
	}
	var sb strings.Builder
	for i, b := range e.prelude {
		if include[i] {
			sb.WriteString(b.text)
		}
	}
	return sb.String()
}

// ---------------------------------------------------------------------------------------------
// ghost-event hooks (sequential abstraction of concurrency primitives)

func (e *Engine) selectChoice(c *Ctx, s *State, x *ast.SelectStmt, i int) {}
// onSend: a send on call.ResultChan() is the delivery of a result to that call (ghost ledger X.delivered[call] += 1).
func (e *Engine) onSend(c *Ctx, s *State, x *ast.SendStmt, ch, v Value) {
	call, ok := unparen(x.Chan).(*ast.CallExpr)
	if !ok {
		return
	}
	se, ok := unparen(call.Fun).(*ast.SelectorExpr)
	if !ok || se.Sel.Name != "ResultChan" {
		return
	}
	recv := asInt(c.eval(se.X, s))
	m := c.heapGet(s, "X.delivered", sA1)
	c.heapSet(s, "X.delivered", sA1, store(m, recv, add(sel(m, recv), "1")))
	c.frameEffect(s, "X.delivered")
	c.note("a send on call.ResultChan() counts as one delivery to that call (ghost X.delivered); blocking is not modelled")
}
// onGo: `go f(args)`: the spawned function's preconditions are obligations of the spawner (what it hands over must be in
// the required state); the contract's `at spawn ghost ...` clauses describe what the spawner gives up. The body is not run.
func (e *Engine) onGo(c *Ctx, s *State, x *ast.GoStmt) {
	var callee *types.Func
	var recv Value
	switch f := unparen(x.Call.Fun).(type) {
	case *ast.Ident:
		callee, _ = c.info().Uses[f].(*types.Func)
	case *ast.SelectorExpr:
		if sel, ok := c.info().Selections[f]; ok && sel.Kind() == types.MethodVal {
			callee = sel.Obj().(*types.Func)
			recv = c.eval(f.X, s)
		} else if o, ok := c.info().Uses[f.Sel].(*types.Func); ok {
			callee = o
		}
	}
	if callee == nil {
		c.abstractNote(x.Pos(), "go statement with an unresolved function")
		return
	}
	key := funcKey(callee)
	k := e.contracts[key]
	if k == nil {
		c.note("go " + key + ": no contract, nothing is checked about what the goroutine is handed")
		return
	}
	c.calleesUsed[key] = true
	var args []Value
	for _, a := range x.Call.Args {
		args = append(args, c.eval(a, s))
	}
	sig := callee.Type().(*types.Signature)
	env := c.calleeEnv(k, sig, callee, recv, args, s)
	for _, r := range k.Requires {
		if hasTag(r.Tags, "local") {
			continue // about goroutine-local ghost state, initialised when the goroutine starts
		}
		g := c.cevalBoolEnv(r.Expr, env)
		c.oblige(s, "pre:go:"+key, r.Text, x.Pos(), g, r.Tags)
	}
	for _, a := range k.Ats["spawn"] {
		if a.Kind != "ghost" {
			continue
		}
		be, ok := a.Expr.(*ast.BinaryExpr)
		if !ok || be.Op != token.EQL {
			continue
		}
		v, _ := env.eval(be.Y)
		ie, ok := be.X.(*ast.IndexExpr)
		if !ok {
			continue
		}
		name, ok := ie.X.(*ast.Ident)
		if !ok {
			continue
		}
		iv, _ := env.eval(ie.Index)
		arr := c.heapGet(s, "X."+name.Name, sA1)
		c.heapSet(s, "X."+name.Name, sA1, store(arr, asInt(iv), asInt(v)))
		c.frameEffect(s, "X."+name.Name)
	}
	if c.atHit == nil {
		c.atHit = map[string]bool{}
	}
}
// onClose: ghost X.closed[ch] = 1; closing a nil or already closed channel panics.
func (e *Engine) onClose(c *Ctx, s *State, x *ast.CallExpr, ch Value) {
	chv := asInt(ch)
	m := c.heapGet(s, "X.closed", sA1)
	if c.checkPanics {
		c.oblige(s, "close", c.text(x), x.Pos(), and(not(eq(chv, "0")), eq(sel(m, chv), "0")), c.panicTags)
	}
	c.heapSet(s, "X.closed", sA1, store(m, chv, "1"))
	c.frameEffect(s, "X.closed")
}
// onLock: ghost count of mutexes held by the executing goroutine (pairing of Lock/Unlock on every path; "emission under a
// lock" obligations).
func (e *Engine) onLock(c *Ctx, s *State, x *ast.CallExpr, op string, recv Value) {
	cur := c.heapGet(s, "X.nheld", sInt)
	switch op {
	case "Lock", "RLock":
		c.heapSet(s, "X.nheld", sInt, add(cur, "1"))
		c.touchedLocks = true
	case "Unlock", "RUnlock":
		if c.checkPanics {
			c.oblige(s, "unlock", c.text(x), x.Pos(), gt(cur, "0"), c.panicTags)
		}
		c.heapSet(s, "X.nheld", sInt, sub(cur, "1"))
		c.touchedLocks = true
	}
}

// ---------------------------------------------------------------------------------------------
// ordinals

func calleeShortName(x *ast.CallExpr) string {
	switch f := unparen(x.Fun).(type) {
	case *ast.Ident:
		return f.Name
	case *ast.SelectorExpr:
		return f.Sel.Name
	case *ast.IndexExpr:
		if id, ok := unparen(f.X).(*ast.Ident); ok {
			return id.Name
		}
	}
	return "fn"
}

func (e *Engine) ordinals(c *Ctx, fd *ast.FuncDecl) {
	if c.ordDone[fd] {
		return
	}
	c.ordDone[fd] = true
	nloop, nret := 0, 0
	headers := map[int]string{}
	hdrText := func(from, to token.Pos) string {
		f := e.fset.File(from)
		if f == nil {
			return ""
		}
		data, err := os.ReadFile(f.Name())
		if err != nil {
			return ""
		}
		a, b := f.Offset(from), f.Offset(to)
		if a < 0 || b > len(data) || a > b {
			return ""
		}
		return strings.Join(strings.Fields(string(data[a:b])), " ")
	}
	nbranch := map[token.Token]int{}
	ncall := map[string]int{}
	ast.Inspect(fd.Body, func(n ast.Node) bool {
		switch x := n.(type) {
		case *ast.ForStmt:
			nloop++
			c.loopOrd[x] = nloop
			headers[nloop] = hdrText(x.Pos(), x.Body.Lbrace)
		case *ast.RangeStmt:
			nloop++
			c.loopOrd[x] = nloop
			headers[nloop] = hdrText(x.Pos(), x.Body.Lbrace)
			if id, ok := x.Key.(*ast.Ident); !ok || id.Name == "_" {
				v := e.rangeIdxVar(x, nil)
				c.idxVars[fmt.Sprintf("idx%d", nloop)] = v
			}
		case *ast.BranchStmt:
			nbranch[x.Tok]++
			c.branchOrd[x] = nbranch[x.Tok]
		case *ast.ReturnStmt:
			nret++
			c.retOrd[x] = nret
		case *ast.CallExpr:
			name := calleeShortName(x)
			ncall[name]++
			c.callOrd[x] = ncall[name]
		}
		return true
	})
	// resolve loop specs keyed by header text
	for _, hdr := range sortedKeys(c.con.LoopsByText) {
		var found []int
		text, nth := hdr, 0
		if i := strings.LastIndex(hdr, "#"); i >= 0 {
			if n, err := strconv.Atoi(hdr[i+1:]); err == nil {
				text, nth = hdr[:i], n
			}
		}
		for ord := 1; ord <= nloop; ord++ {
			if headers[ord] == text {
				found = append(found, ord)
			}
		}
		if len(found) == 0 {
			for ord := 1; ord <= nloop; ord++ {
				if strings.HasPrefix(headers[ord], text) {
					found = append(found, ord)
				}
			}
		}
		if nth > 0 && nth <= len(found) {
			found = []int{found[nth-1]}
		}
		if len(found) != 1 {
			c.bindingErrors = append(c.bindingErrors, fmt.Sprintf("loop %q matches %d loops in %s", hdr, len(found), fd.Name.Name))
			continue
		}
		if c.con.Loops[found[0]] != nil {
			c.bindingErrors = append(c.bindingErrors, fmt.Sprintf("loop %q is also specified by ordinal %d", hdr, found[0]))
			continue
		}
		c.con.Loops[found[0]] = c.con.LoopsByText[hdr]
		c.loopNames[found[0]] = hdr
	}
}

// ---------------------------------------------------------------------------------------------
// function verification

func (e *Engine) newCtx(k *Contract, fi *funcInfo) *Ctx {
	c := &Ctx{eng: e, con: k, decls: map[string]string{}, occ: map[string]int{}, loopOrd: map[ast.Stmt]int{}, callOrd: map[*ast.CallExpr]int{},
		retOrd: map[*ast.ReturnStmt]int{}, strlits: map[string]string{}, calleesUsed: map[string]bool{}, typeIDs: map[string]types.Type{},
		ifacePreds: map[string]types.Type{}, distinctRefs: map[string]bool{}, sorts: map[string]string{}, idxVars: map[string]*types.Var{},
		usedSpec: map[string]bool{}, ordDone: map[*ast.FuncDecl]bool{}, byteMems: map[string]bool{}, byteArrs: map[string]bool{},
		frameWrites: map[string]bool{}, freshRefs: map[string]bool{}, variantAt: map[int]string{}, loopHeads: map[int]*State{}, loopEntry: map[int]*State{}, branchOrd: map[*ast.BranchStmt]int{}, loopNames: map[int]string{}, loopIdxVar: map[int]*types.Var{}, allocSeq: map[string]int{}}
	if fi != nil {
		c.pkg, c.fn, c.decl = fi.pkg, fi.fn, fi.decl
	}
	c.useStr()
	c.checkPanics = k.Panics == "never"
	c.panicTags = k.PanicTags
	c.checkOvf = k.Ovf
	return c
}

// verifyFunc generates the obligations of one function under contract.
func (e *Engine) verifyFunc(key string) (c *Ctx, err error) {
	k := e.contracts[key]
	fi := e.funcs[key]
	if k == nil {
		return nil, fmt.Errorf("no contract for %s", key)
	}
	if fi == nil {
		return nil, fmt.Errorf("contract-binding: function %s not found in /repo", key)
	}
	c = e.newCtx(k, fi)
	defer func() {
		if r := recover(); r != nil {
			if ce, ok := r.(cerr); ok {
				err = fmt.Errorf("%s: contract error: %s", key, ce.msg)
				return
			}
			panic(r)
		}
	}()
	if fi.decl.Body == nil {
		return nil, fmt.Errorf("%s has no body", key)
	}
	e.ordinals(c, fi.decl)
	s := &State{vars: map[*types.Var]Value{}, heap: map[string]string{}}
	c.entry = &State{vars: map[*types.Var]Value{}, heap: map[string]string{}}
	sig := fi.fn.Type().(*types.Signature)
	info := fi.pkg.TypesInfo
	// receiver
	if fi.decl.Recv != nil && len(fi.decl.Recv.List) > 0 && len(fi.decl.Recv.List[0].Names) > 0 {
		if rv, ok := info.Defs[fi.decl.Recv.List[0].Names[0]].(*types.Var); ok {
			val := c.freshValue(s, rv.Name(), rv.Type())
			c.assumeTyped(s, val, rv.Type())
			if _, isPtr := rv.Type().Underlying().(*types.Pointer); isPtr {
				s.assume(lt("0", asInt(val)))
				c.note("method receivers are non-nil")
			}
			s.vars[rv] = val
		}
	}
	for _, fld := range fi.decl.Type.Params.List {
		for _, n := range fld.Names {
			if pv, ok := info.Defs[n].(*types.Var); ok {
				val := c.freshValue(s, pv.Name(), pv.Type())
				c.assumeTyped(s, val, pv.Type())
				if sv, ok := val.(SliceV); ok {
					// the position of a slice inside its backing array is not observable: view it from its own start
					s.assume(eq(sv.Off, "0"))
					sv.Off = "0"
					val = sv
					c.note("slice parameters are viewed from offset 0 of their backing array (unobservable in Go); distinct slice parameters are assumed not to overlap partially")
				}
				if c.boxed(pv) {
					c.declVar(s, pv, val)
				} else {
					s.vars[pv] = val
				}
			}
		}
	}
	// results
	if fi.decl.Type.Results != nil {
		i := 0
		for _, fld := range fi.decl.Type.Results.List {
			if len(fld.Names) == 0 {
				c.results = append(c.results, types.NewVar(fld.Pos(), fi.pkg.Types, fmt.Sprintf("r%d", i), sig.Results().At(i).Type()))
				i++
				continue
			}
			for _, n := range fld.Names {
				rv := info.Defs[n].(*types.Var)
				c.results = append(c.results, rv)
				c.declVar(s, rv, zeroValue(rv.Type()))
				i++
			}
		}
	}
	// entry snapshot for old(): taken before requires so that requires can use the same symbols
	for v, val := range s.vars {
		c.entry.vars[v] = val
	}
	c.entry.assumes = s.assumes
	for _, r := range k.Requires {
		s.assume(c.cevalBool(r.Expr, s, nil, fi.decl.Body.Lbrace+1))
	}
	c.heapGet(s, "X.alloc", sA1)
	// slice element types whose elements have their address taken somewhere in the body
	c.escTypes = map[string]bool{}
	ast.Inspect(fi.decl.Body, func(n ast.Node) bool {
		if u, ok := n.(*ast.UnaryExpr); ok && u.Op == token.AND {
			if ix, ok := unparen(u.X).(*ast.IndexExpr); ok {
				if st, ok := c.typeOf(ix.X).Underlying().(*types.Slice); ok {
					c.escTypes[memKey(st.Elem())] = true
				}
			}
		}
		return true
	})
	for kk, vv := range s.heap {
		c.entry.heap[kk] = vv
	}
	if k.Trusted != "" {
		c.note("TRUSTED contract (body not verified): " + key + " — " + k.Trusted)
		return c, nil
	}
	s.assume(le("0", c.heapGet(s, "X.nheld", sInt))) // ghost count of held mutexes
	{
		// ghost marks exist only for allocated objects: an object that does not exist yet is neither marked unavailable nor closed
		al := c.heapGet(s, "X.alloc", sA1)
		un := c.heapGet(s, "X.unavail", sA1)
		s.assume(fmt.Sprintf("(forall ((r Int)) (! (=> (not (= (select %s r) 1)) (= (select %s r) 0)) :pattern ((select %s r))))", al, un, un))
		// likewise nothing can have retained (kept references into) an array that does not exist yet
		rt := c.heapGet(s, "X.retained", sA1)
		s.assume(fmt.Sprintf("(forall ((r Int)) (! (=> (not (= (select %s r) 1)) (= (select %s r) 0)) :pattern ((select %s r))))", al, rt, rt))
		// ... nor can an array that does not exist yet sit in a buffer pool (ghost freed)
		fr := c.heapGet(s, "X.freed", sA1)
		s.assume(fmt.Sprintf("(forall ((r Int)) (! (=> (not (= (select %s r) 1)) (= (select %s r) 0)) :pattern ((select %s r))))", al, fr, fr))
	}
	c.frameInit()
	c.smoke(s, "entry", fi.decl.Body.Lbrace)
	exits := c.execBlock(fi.decl.Body.List, s)
	nret := 0
	var retStates []*State
	for _, ex := range exits {
		switch ex.kind {
		case xReturn, xFall:
			nret++
			c.runDefers(ex.s)
			pos := fi.decl.Body.Rbrace
			label := "end"
			retOrd := 0
			if ex.ret != nil {
				pos = ex.ret.Pos()
				retOrd = c.retOrd[ex.ret]
				label = fmt.Sprintf("return %d", retOrd)
			}
			c.atClauses(ex.s, label, pos)
			if c.touchedLocks {
				// every mutex taken by the function is released on this path
				c.oblige(ex.s, "lock-balance@"+strings.ReplaceAll(label, " ", ""), "locks held at exit == locks held at entry", pos,
					eq(c.heapGet(ex.s, "X.nheld", sInt), c.heapGet(c.entry, "X.nheld", sInt)), nil)
			}
			for i, en := range k.Ensures {
				c.curTags = en.Tags
				g := c.cevalBool(en.Expr, ex.s, c.entryParams(), fi.decl.Body.Lbrace+1)
				c.oblige(ex.s, fmt.Sprintf("post%d@%s", i+1, strings.ReplaceAll(label, " ", "")), en.Text, pos, g, en.Tags)
			}
			// vacuity guard per exit: the path to this return, together with everything the clauses evaluated on it
			// brought in, must be satisfiable - a contradictory assumption would make its postconditions hold trivially
			if len(k.Ensures) > 0 {
				if why, dead := k.DeadReturns[retOrd]; dead {
					c.note("return " + fmt.Sprint(retOrd) + " of " + key + " is declared unreachable under the contract: " + why)
				} else {
					c.smoke(ex.s, strings.ReplaceAll(label, " ", ""), pos)
				}
			}
			retStates = append(retStates, ex.s)
		case xPanic:
			// obligation recorded at the panic call when panics are checked
		default:
			return c, fmt.Errorf("%s: break/continue escaped the function body", key)
		}
	}
	for _, label := range sortedKeys(k.Ats) {
		if label == "spawn" {
			continue
		}
		if !c.atHit[label] {
			// reported under the properties the clauses at that label are tagged with (any untagged clause: under all)
			tagset := map[string]bool{}
			allTagged := true
			for _, a := range k.Ats[label] {
				if len(a.Tags) == 0 && a.Kind != "ghost" && a.Kind != "assume-shared" {
					allTagged = false
				}
				for _, t := range a.Tags {
					tagset[t] = true
				}
			}
			prefix := ""
			if allTagged && len(tagset) > 0 {
				prefix = "[" + strings.Join(sortedKeys(tagset), ",") + "] "
			}
			c.bindingErrors = append(c.bindingErrors, prefix+fmt.Sprintf("at-clause label %q matches no program point of %s", label, key))
		}
	}
	for _, so := range k.SpawnOnly {
		if !c.spawned[so] {
			prefix := ""
			if len(k.SpawnOnlyTags) > 0 {
				prefix = "[" + strings.Join(k.SpawnOnlyTags, ",") + "] "
			}
			c.bindingErrors = append(c.bindingErrors, prefix+fmt.Sprintf("spawnonly %s: %s is never started with `go` in %s", so, so, key))
		}
	}
	c.frameCheck(fi.decl.Body.Rbrace)
	// vacuity: some normal exit must be reachable under the contracts (unless the function never returns)
	if len(retStates) > 0 {
		saved := c.dry
		m := c.mergeStates(retStates)
		c.dry = saved
		c.smoke(m, "some-exit", fi.decl.Body.Rbrace)
	}
	return c, nil
}

// atClauses processes `at <label> assert e` clauses.
func (c *Ctx) atClauses(s *State, label string, pos token.Pos) {
	if c.atHit == nil {
		c.atHit = map[string]bool{}
	}
	c.atHit[label] = true
	for _, a := range c.con.Ats[label] {
		switch a.Kind {
		case "assert":
			c.curTags = a.Tags
			nb := len(c.bindingErrors)
			g := c.cevalBool(a.Expr, s, c.atArgs, pos)
			if len(c.bindingErrors) > nb {
				continue // reported as contract-binding; neither obliged nor assumed
			}
			c.oblige(s, "assert@"+strings.ReplaceAll(label, " ", ""), a.Text, pos, g, a.Tags)
			s.assume(g)
		case "assume-shared":
			// an invariant of state shared with other goroutines (established and preserved by the operations on it, each under
			// its own contract); assumed here, never proved here, and listed among the assumptions
			g := c.cevalBool(a.Expr, s, nil, pos)
			s.assume(g)
			c.note("ASSUMED shared-state invariant at " + label + " in " + c.con.Key + ": " + a.Text)
		case "ghost":
			// ghost name == expr | ghost name[i] == expr | ghost name[i][j] == expr   (assignment to ghost state)
			be, ok := a.Expr.(*ast.BinaryExpr)
			if !ok || be.Op != token.EQL {
				c.bindingErrors = append(c.bindingErrors, "ghost clause must have the form `lhs == expr`")
				continue
			}
			v := asInt(c.ceval(be.Y, s, c.atArgs, pos))
			var idxs []string
			lhs := be.X
			for {
				ie, isIdx := lhs.(*ast.IndexExpr)
				if !isIdx {
					break
				}
				idxs = append([]string{asInt(c.ceval(ie.Index, s, nil, pos))}, idxs...)
				lhs = ie.X
			}
			name, isId := lhs.(*ast.Ident)
			if !isId || len(idxs) > 2 {
				c.bindingErrors = append(c.bindingErrors, "ghost clause: bad left-hand side")
				continue
			}
			key := "X." + name.Name
			switch len(idxs) {
			case 0:
				c.heapSet(s, key, sInt, v)
			case 1:
				arr := c.heapGet(s, key, sA1)
				c.heapSet(s, key, sA1, store(arr, idxs[0], v))
			case 2:
				arr := c.heapGet(s, key, sA2)
				c.heapSet(s, key, sA2, store(arr, idxs[0], store(sel(arr, idxs[0]), idxs[1], v)))
			}
			c.frameEffect(s, key)
		default:
			c.bindingErrors = append(c.bindingErrors, "unsupported at-clause kind "+a.Kind)
		}
	}
}

// smoke records a vacuity probe: the path condition must be satisfiable (not provably false).
func (c *Ctx) smoke(s *State, what string, pos token.Pos) {
	if c.dry > 0 || s.dead {
		return
	}
	c.obls = append(c.obls, &Oblig{Name: c.con.Key + "/smoke(" + what + ")", Kind: "smoke", Func: c.con.Key, Assumes: s.assumes, Goal: "false",
		Pos: c.eng.fset.Position(pos), Smoke: true, decls: c})
}

// frameInit expands contents(..)/object(..) entries of the modifies clause into heap keys (approximation: any object or
// array of that type) for the frame check.
func (c *Ctx) frameInit() {
	k := c.con
	if !k.HasModifies || c.decl == nil {
		return
	}
	for _, m := range append([]string(nil), k.Modifies...) {
		if strings.HasPrefix(m, "contents(") || strings.HasPrefix(m, "object(") {
			name := m[strings.Index(m, "(")+1 : len(m)-1]
			var t types.Type
			if v := c.lookupLocal(name, c.decl.Body.Lbrace+1); v != nil {
				t = v.Type()
			} else if ex, err := parseCExpr(name); err == nil {
				func() {
					defer func() { recover() }()
					c.dry++
					defer func() { c.dry-- }()
					env := c.ownEnv(c.entry.clone(), c.decl.Body.Lbrace+1)
					_, t = env.eval(ex)
				}()
			}
			if t != nil {
				switch u := t.Underlying().(type) {
				case *types.Slice:
					c.frameKeys = append(c.frameKeys, memKey(u.Elem()))
				case *types.Pointer:
					c.frameKeys = append(c.frameKeys, "F."+typeKey(u.Elem())+".*")
				}
			}
			continue
		}
		c.frameKeys = append(c.frameKeys, m)
	}
}

func (c *Ctx) frameCovered(key string) bool {
	if strings.HasPrefix(key, "L.") || key == "X.nheld" || key == "X.alloc" {
		return true
	}
	for _, h := range c.con.Hides {
		if h == key {
			return true
		}
	}
	for _, m := range c.frameKeys {
		if m == "all" || m == key {
			return true
		}
		if keyMatches(key, m) {
			return true
		}
		// a pattern in the callee's modifies (ending in *) is covered by an equal or wider pattern
		if strings.HasSuffix(key, "*") && strings.HasSuffix(m, "*") && strings.HasPrefix(strings.TrimSuffix(key, "*"), strings.TrimSuffix(m, "*")) {
			return true
		}
	}
	return false
}

// frameEffect: an effect on heap key `key` happens on the path of state s; it must be covered by `modifies`.
// Path-sensitive: the obligation is `false` under the path condition, so effects on infeasible paths do not count.
func (c *Ctx) frameEffect(s *State, key string) {
	if c.con == nil || !c.con.HasModifies || c.dry > 0 || s == nil {
		return
	}
	if c.frameCovered(key) {
		return
	}
	pos := c.curPos
	if c.decl != nil && pos == token.NoPos {
		pos = c.decl.Body.Rbrace
	}
	c.oblige(s, "frame", key, pos, "false", nil)
}

// frameEffectRef: a write to object ref under heap key `key`. Not covered by `modifies` it is still allowed when the object
// did not exist when the function was entered (semantic freshness: ghost allocation set at entry).
func (c *Ctx) frameEffectRef(s *State, key, ref string) {
	if c.con == nil || !c.con.HasModifies || c.dry > 0 || s == nil {
		return
	}
	if c.frameCovered(key) {
		return
	}
	pos := c.curPos
	if c.decl != nil && pos == token.NoPos {
		pos = c.decl.Body.Rbrace
	}
	goal := "false"
	if c.entry != nil {
		if al, ok := c.entry.heap["X.alloc"]; ok {
			goal = or(eq(ref, "0"), eq(sel(al, innerRef(ref)), "0"))
		}
	}
	c.oblige(s, "frame", key, pos, goal, nil)
}

func (c *Ctx) frameCheck(pos token.Pos) {}

// entryParams: in postconditions parameter names denote the values passed by the caller (Go parameters are mutable locals).
func (c *Ctx) entryParams() map[string]bound {
	out := map[string]bound{}
	for _, fld := range c.decl.Type.Params.List {
		for _, n := range fld.Names {
			if pv, ok := c.pkg.TypesInfo.Defs[n].(*types.Var); ok && !c.boxed(pv) {
				if val, ok := c.entry.vars[pv]; ok {
					out[pv.Name()] = bound{val, pv.Type()}
				}
			}
		}
	}
	return out
}
