package main

// Symbolic execution of statements.

import (
	"fmt"
	"go/ast"
	"go/token"
	"go/types"
	"sort"
	"strconv"
	"strings"
)

type exitKind int

const (
	xFall exitKind = iota
	xReturn
	xBreak
	xContinue
	xPanic
)

type Exit struct {
	kind  exitKind
	label string
	s     *State
	ret   *ast.ReturnStmt
}

func fall(s *State) []Exit { return []Exit{{kind: xFall, s: s}} }

// mergeStates joins several states reaching the same program point.
func (c *Ctx) mergeStates(states []*State) *State {
	var live []*State
	for _, s := range states {
		if !s.dead || c.dry > 0 {
			live = append(live, s)
		}
	}
	if len(live) == 0 {
		if len(states) == 0 {
			return nil
		}
		return states[0]
	}
	if len(live) == 1 {
		return live[0]
	}
	states = live
	base := states[0].assumes
	for _, s := range states[1:] {
		base = commonAncestor(base, s.assumes)
	}
	out := &State{assumes: base, vars: map[*types.Var]Value{}, heap: map[string]string{}, written: states[0].written, wvars: states[0].wvars,
		defers: states[0].defers}
	// keys untouched on every path are resolved lazily per path (ite over the paths) when first read
	sameEp := true
	for _, st := range states[1:] {
		if !sameEpochs(st.epochs, states[0].epochs) || st.lazy != states[0].lazy || st.lazyFrom != states[0].lazyFrom {
			sameEp = false
		}
	}
	if sameEp {
		out.epochs, out.lazy, out.lazyFrom = states[0].epochs, states[0].lazy, states[0].lazyFrom
	} else {
		out.epochs = nil
		out.lazyFrom = 0
		var origins []*State
		for _, st := range states {
			cp := *st // snapshot: the caller may overwrite *st with the merged state
			origins = append(origins, &cp)
		}
		out.lazy = &lazyMerge{origins: origins}
	}
	selv := c.fresh("sel", sInt)
	out.assume(and(le("0", selv), lt(selv, num(int64(len(states))))))
	guards := make([]string, len(states))
	if out.lazy != nil && !sameEp {
		defer func() { out.lazy.guards = guards }()
	}
	for i := range states {
		guards[i] = eq(selv, num(int64(i)))
	}
	// deferred calls registered on some of the merged paths only: kept, guarded by the paths that registered them
	{
		common := len(states[0].defers)
		for _, st := range states[1:] {
			n := 0
			for n < len(st.defers) && n < common && st.defers[n].call == states[0].defers[n].call && st.defers[n].guard == states[0].defers[n].guard {
				n++
			}
			common = n
		}
		differ := false
		for _, st := range states {
			if len(st.defers) != common {
				differ = true
			}
		}
		if differ {
			ds := append([]deferred(nil), states[0].defers[:common]...)
			for i, st := range states {
				for _, d := range st.defers[common:] {
					g := guards[i]
					if d.guard != "" {
						g = and(g, d.guard)
					}
					d.guard = g
					ds = append(ds, d)
				}
			}
			out.defers = ds
		}
	}
	for i, s := range states {
		delta := s.assumes.since(base)
		if len(delta) > 0 {
			out.assume(implies(guards[i], and(delta...)))
		}
	}
	// heap
	keys := map[string]bool{}
	for _, s := range states {
		for k := range s.heap {
			keys[k] = true
		}
	}
	ks := make([]string, 0, len(keys))
	for k := range keys {
		ks = append(ks, k)
	}
	sort.Strings(ks)
	for _, k := range ks {
		so := c.heapSort(k)
		var ts []string
		same := true
		for _, s := range states {
			t := c.heapGet(s, k, so)
			ts = append(ts, t)
			if t != ts[0] {
				same = false
			}
		}
		if same {
			out.heap[k] = ts[0]
			continue
		}
		t := ts[len(ts)-1]
		for i := len(ts) - 2; i >= 0; i-- {
			t = ite(guards[i], ts[i], t)
		}
		n := c.fresh(sanitize(k), so)
		out.assume(eq(n, t))
		out.heap[k] = n
	}
	// vars present in all states
	var vs []*types.Var
	for v := range states[0].vars {
		ok := true
		for _, s := range states[1:] {
			if _, has := s.vars[v]; !has {
				ok = false
				break
			}
		}
		if ok {
			vs = append(vs, v)
		}
	}
	sort.Slice(vs, func(i, j int) bool {
		if vs[i].Pos() != vs[j].Pos() {
			return vs[i].Pos() < vs[j].Pos()
		}
		return vs[i].Name() < vs[j].Name()
	})
	for _, v := range vs {
		var vals []Value
		same := true
		for _, s := range states {
			vals = append(vals, s.vars[v])
			if !sameValue(vals[0], s.vars[v]) {
				same = false
			}
		}
		if same {
			out.vars[v] = vals[0]
			continue
		}
		out.vars[v] = c.mergeValues(out, vals, guards, v.Name())
	}
	return out
}

func sameEpochs(a, b []epochMark) bool {
	if len(a) != len(b) {
		return false
	}
	for i := range a {
		if a[i] != b[i] {
			return false
		}
	}
	return true
}

func (c *Ctx) mergeFalls(exits []Exit) ([]Exit, *State) {
	var falls []*State
	var rest []Exit
	for _, e := range exits {
		if e.kind == xFall {
			falls = append(falls, e.s)
		} else {
			rest = append(rest, e)
		}
	}
	if len(falls) == 0 {
		return rest, nil
	}
	return rest, c.mergeStates(falls)
}

func (c *Ctx) execBlock(list []ast.Stmt, s *State) []Exit {
	var out []Exit
	cur := s
	for _, st := range list {
		if cur == nil {
			break
		}
		exits := c.exec(st, cur)
		var rest []Exit
		rest, cur = c.mergeFalls(exits)
		out = append(out, rest...)
	}
	if cur != nil {
		out = append(out, Exit{kind: xFall, s: cur})
	}
	return out
}

// branch forks s on cond.
func (c *Ctx) branch(s *State, cond string) (*State, *State) {
	t := s
	f := s.clone()
	t.assume(cond)
	f.assume(not(cond))
	if c.dry == 0 {
		if cond == "false" {
			t.dead = true
		}
		if cond == "true" {
			f.dead = true
		}
	}
	return t, f
}

func (c *Ctx) exec(st ast.Stmt, s *State) []Exit {
	if s.dead && c.dry == 0 {
		return nil
	}
	switch x := st.(type) {
	case *ast.BlockStmt:
		return c.execBlock(x.List, s)
	case *ast.ExprStmt:
		c.eval(x.X, s)
		if call, ok := x.X.(*ast.CallExpr); ok && c.isPanicCall(call) {
			return []Exit{{kind: xPanic, s: s}}
		}
		return fall(s)
	case *ast.AssignStmt:
		c.execAssign(x, s)
		return fall(s)
	case *ast.DeclStmt:
		c.execDecl(x, s)
		return fall(s)
	case *ast.IncDecStmt:
		op := token.ADD
		if x.Tok == token.DEC {
			op = token.SUB
		}
		t := c.typeOf(x.X)
		v := asInt(c.eval(x.X, s))
		r := c.intBinop(s, x, op, v, "1", t, t, nil)
		c.assign(x.X, r, s)
		return fall(s)
	case *ast.ReturnStmt:
		return c.execReturn(x, s)
	case *ast.IfStmt:
		if x.Init != nil {
			c.exec(x.Init, s)
		}
		cond := asBool(c.eval(x.Cond, s))
		t, f := c.branch(s, cond)
		out := c.exec(x.Body, t)
		if x.Else != nil {
			out = append(out, c.exec(x.Else, f)...)
		} else {
			out = append(out, Exit{kind: xFall, s: f})
		}
		return out
	case *ast.ForStmt:
		return c.execFor(x, s, "")
	case *ast.RangeStmt:
		return c.execRange(x, s, "")
	case *ast.LabeledStmt:
		switch inner := x.Stmt.(type) {
		case *ast.ForStmt:
			return c.execFor(inner, s, x.Label.Name)
		case *ast.RangeStmt:
			return c.execRange(inner, s, x.Label.Name)
		}
		return c.exec(x.Stmt, s)
	case *ast.BranchStmt:
		label := ""
		if x.Label != nil {
			label = x.Label.Name
		}
		switch x.Tok {
		case token.BREAK:
			c.atClauses(s, fmt.Sprintf("break %d", c.branchOrd[x]), x.Pos())
			return []Exit{{kind: xBreak, label: label, s: s}}
		case token.CONTINUE:
			c.atClauses(s, fmt.Sprintf("continue %d", c.branchOrd[x]), x.Pos())
			return []Exit{{kind: xContinue, label: label, s: s}}
		}
	case *ast.SwitchStmt:
		return c.execSwitch(x, s)
	case *ast.TypeSwitchStmt:
		return c.execTypeSwitch(x, s)
	case *ast.SelectStmt:
		return c.execSelect(x, s)
	case *ast.DeferStmt:
		c.execDefer(x, s)
		return fall(s)
	case *ast.GoStmt:
		c.execGo(x, s)
		return fall(s)
	case *ast.SendStmt:
		c.execSend(x, s)
		return fall(s)
	case *ast.EmptyStmt:
		return fall(s)
	}
	c.abstractStmt(st, s)
	return fall(s)
}

// abstractStmt havocs everything the statement may assign.
func (c *Ctx) abstractStmt(st ast.Stmt, s *State) {
	c.abstractNote(st.Pos(), fmt.Sprintf("statement %T abstracted", st))
	ast.Inspect(st, func(n ast.Node) bool {
		if as, ok := n.(*ast.AssignStmt); ok {
			for _, l := range as.Lhs {
				if id, ok := l.(*ast.Ident); ok {
					if v, ok := c.objOf(id).(*types.Var); ok {
						c.setVar(s, v, c.freshValue(s, v.Name(), v.Type()))
					}
				}
			}
		}
		return true
	})
	c.havocAll(s)
}

func (c *Ctx) objOf(id *ast.Ident) types.Object {
	if o := c.info().Defs[id]; o != nil {
		return o
	}
	return c.info().Uses[id]
}

func (c *Ctx) isPanicCall(call *ast.CallExpr) bool {
	if id, ok := call.Fun.(*ast.Ident); ok && id.Name == "panic" {
		_, isBuiltin := c.info().Uses[id].(*types.Builtin)
		return isBuiltin
	}
	return false
}

func (c *Ctx) execDecl(x *ast.DeclStmt, s *State) {
	gd, ok := x.Decl.(*ast.GenDecl)
	if !ok || gd.Tok != token.VAR {
		return
	}
	for _, sp := range gd.Specs {
		vs := sp.(*ast.ValueSpec)
		if len(vs.Values) == 0 {
			for _, n := range vs.Names {
				if v, ok := c.info().Defs[n].(*types.Var); ok {
					c.declVar(s, v, zeroValue(v.Type()))
				}
			}
			continue
		}
		if len(vs.Values) == 1 && len(vs.Names) > 1 {
			tv := c.eval(vs.Values[0], s).(TupleV)
			for i, n := range vs.Names {
				if v, ok := c.info().Defs[n].(*types.Var); ok {
					c.declVar(s, v, tv[i])
				}
			}
			continue
		}
		for i, n := range vs.Names {
			val := c.eval(vs.Values[i], s)
			if v, ok := c.info().Defs[n].(*types.Var); ok {
				val = c.convertTo(s, val, c.typeOf(vs.Values[i]), v.Type(), vs.Values[i])
				c.declVar(s, v, val)
			}
		}
	}
}

func (c *Ctx) execAssign(x *ast.AssignStmt, s *State) {
	if x.Tok != token.ASSIGN && x.Tok != token.DEFINE {
		// op=
		op := map[token.Token]token.Token{token.ADD_ASSIGN: token.ADD, token.SUB_ASSIGN: token.SUB, token.MUL_ASSIGN: token.MUL,
			token.QUO_ASSIGN: token.QUO, token.REM_ASSIGN: token.REM, token.AND_ASSIGN: token.AND, token.OR_ASSIGN: token.OR,
			token.XOR_ASSIGN: token.XOR, token.SHL_ASSIGN: token.SHL, token.SHR_ASSIGN: token.SHR, token.AND_NOT_ASSIGN: token.AND_NOT}[x.Tok]
		t := c.typeOf(x.Lhs[0])
		l := c.eval(x.Lhs[0], s)
		r := c.eval(x.Rhs[0], s)
		if isStringType(t) {
			c.assign(x.Lhs[0], c.strConcat(s, asInt(l), asInt(r)), s)
			return
		}
		c.assign(x.Lhs[0], c.intBinop(s, x, op, asInt(l), asInt(r), t, c.typeOf(x.Rhs[0]), x.Rhs[0]), s)
		return
	}
	var vals []Value
	if len(x.Rhs) == 1 && len(x.Lhs) > 1 {
		var v Value
		switch r := x.Rhs[0].(type) {
		case *ast.TypeAssertExpr:
			val, ok := c.evalTypeAssert(r, s, true)
			v = TupleV{val, BoolV{ok}}
		default:
			v = c.eval(x.Rhs[0], s)
		}
		tv, ok := v.(TupleV)
		if !ok {
			panic(fmt.Sprintf("tuple expected from %s, got %T", c.text(x.Rhs[0]), v))
		}
		vals = tv
		tt, _ := c.info().TypeOf(x.Rhs[0]).(*types.Tuple)
		for i := range vals {
			if tt != nil && i < tt.Len() {
				if lt := c.lhsType(x.Lhs[i]); lt != nil {
					vals[i] = c.convertTo(s, vals[i], tt.At(i).Type(), lt, x)
				}
			}
		}
	} else {
		for i, r := range x.Rhs {
			v := c.eval(r, s)
			if lt := c.lhsType(x.Lhs[i]); lt != nil {
				v = c.convertTo(s, v, c.typeOf(r), lt, r)
			}
			vals = append(vals, v)
		}
	}
	for i, l := range x.Lhs {
		if x.Tok == token.DEFINE {
			if id, ok := l.(*ast.Ident); ok {
				if v, ok := c.info().Defs[id].(*types.Var); ok {
					c.declVar(s, v, vals[i])
					continue
				}
			}
		}
		c.assign(l, vals[i], s)
	}
}

func (c *Ctx) lhsType(l ast.Expr) types.Type {
	if id, ok := l.(*ast.Ident); ok {
		if id.Name == "_" {
			return nil
		}
		if o := c.objOf(id); o != nil {
			return o.Type()
		}
		return nil
	}
	return c.info().TypeOf(l)
}

// assign stores v into the lvalue l.
func (c *Ctx) assign(l ast.Expr, v Value, s *State) {
	switch x := l.(type) {
	case *ast.ParenExpr:
		c.assign(x.X, v, s)
		return
	case *ast.Ident:
		if x.Name == "_" {
			return
		}
		if o, ok := c.objOf(x).(*types.Var); ok {
			c.setVar(s, o, v)
			return
		}
	case *ast.SelectorExpr:
		if sel, ok := c.info().Selections[x]; ok && sel.Kind() == types.FieldVal {
			base := c.eval(x.X, s)
			t := c.typeOf(x.X)
			idx := sel.Index()
			ref, st, sv := c.walkPath(s, base, t, idx[:len(idx)-1], x)
			f := st.Underlying().(*types.Struct).Field(idx[len(idx)-1])
			if ref != "" {
				c.guardCheck(s, st, f, x, "write")
				c.writeField(s, ref, st, f, v)
				return
			}
			// by-value struct local: rebuild
			if len(idx) == 1 {
				nsv := StructV{F: map[string]Value{}}
				for k, fv := range sv.(StructV).F {
					nsv.F[k] = fv
				}
				nsv.F[f.Name()] = v
				c.assign(x.X, nsv, s)
				return
			}
		}
		if o, ok := c.info().Uses[x.Sel].(*types.Var); ok && c.isGlobal(o) {
			c.writeGlobal(s, o, v)
			return
		}
	case *ast.IndexExpr:
		bt := c.typeOf(x.X)
		switch u := bt.Underlying().(type) {
		case *types.Slice:
			sv := c.eval(x.X, s).(SliceV)
			i := asInt(c.eval(x.Index, s))
			c.boundsCheck(s, x, i, sv.Len)
			c.writeElem(s, sv, i, u.Elem(), v)
			return
		case *types.Map:
			m := asInt(c.eval(x.X, s))
			k := c.eval(x.Index, s)
			c.mapStore(s, m, u, k, v, x)
			return
		}
	case *ast.StarExpr:
		p := asInt(c.eval(x.X, s))
		c.nilCheck(s, p, x, "nil")
		c.storePtr(s, p, c.typeOf(x.X).Underlying().(*types.Pointer).Elem(), v)
		return
	}
	c.abstractNote(l.Pos(), "assignment to "+c.text(l))
	c.havocAll(s)
}

func (c *Ctx) resultVars() []*types.Var {
	if n := len(c.inline); n > 0 {
		return c.inline[n-1].results
	}
	return c.results
}

func (c *Ctx) execReturn(x *ast.ReturnStmt, s *State) []Exit {
	rvs := c.resultVars()
	if len(x.Results) > 0 {
		var vals []Value
		if len(x.Results) == 1 && len(rvs) > 1 {
			vals = append(TupleV(nil), c.eval(x.Results[0], s).(TupleV)...)
			// return f(): each component is converted to the declared result type (e.g. a pointer into an interface)
			if tup, ok := c.typeOf(x.Results[0]).(*types.Tuple); ok && tup.Len() == len(rvs) {
				for i := range vals {
					vals[i] = c.convertTo(s, vals[i], tup.At(i).Type(), rvs[i].Type(), x.Results[0])
				}
			}
		} else {
			for i, r := range x.Results {
				v := c.eval(r, s)
				v = c.convertTo(s, v, c.typeOf(r), rvs[i].Type(), r)
				vals = append(vals, v)
			}
		}
		for i, rv := range rvs {
			c.setVar(s, rv, vals[i])
		}
	}
	return []Exit{{kind: xReturn, s: s, ret: x}}
}

// ---------------------------------------------------------------------------------------------
// loops

func (c *Ctx) havocAll(s *State) {
	c.pendingHavoc(s, "")
}

type loopInfo struct {
	ord   int
	spec  *LoopSpec
	label string
}

// discoverWrites runs body() on a clone in dry mode and reports the variables and heap keys it writes.
func (c *Ctx) discoverWrites(s *State, body func(s *State)) (map[*types.Var]bool, map[string]bool) {
	d := s.clone()
	d.written = map[string]bool{}
	d.wvars = map[*types.Var]bool{}
	d.nonFresh = map[string]int{}
	d.nfRefs = map[string]map[string]int{}
	d.nfWhole = map[string]bool{}
	start := c.nfresh
	defer func() {
		// which pre-existing objects does the loop write, key by key? Known precisely when every such write goes through
		// a term that means the same object in every iteration: a constant introduced before the loop that is not the
		// entry value of a variable the loop assigns (the dry run starts from the entry values).
		entryOfWritten := map[string]bool{}
		for v := range d.wvars {
			if val, ok := s.vars[v]; ok {
				for _, t := range valueTerms(val) {
					entryOfWritten[t] = true
				}
			}
		}
		c.lastNfRefs = map[string][]string{}
		c.lastNfVague = map[string]bool{}
		for k := range d.nfWhole {
			c.lastNfVague[k] = true
		}
		for k, refs := range d.nfRefs {
			for r, stamp := range refs {
				if stamp > start {
					continue // allocated by the loop itself
				}
				if !stableConst(r, start) || entryOfWritten[r] {
					c.lastNfVague[k] = true
					continue
				}
				c.lastNfRefs[k] = append(c.lastNfRefs[k], r)
			}
			sort.Strings(c.lastNfRefs[k])
		}
		if s.nfRefs != nil {
			for k, refs := range d.nfRefs {
				if s.nfRefs[k] == nil {
					s.nfRefs[k] = map[string]int{}
				}
				for r, st := range refs {
					s.nfRefs[k][r] = st
				}
			}
			for k := range d.nfWhole {
				s.nfWhole[k] = true
			}
		}
		// outer loops see the inner loop's writes too (with the allocation stamps of the written objects)
		if s.nonFresh != nil {
			for k, v := range d.nonFresh {
				if old, ok := s.nonFresh[k]; !ok || v < old {
					s.nonFresh[k] = v
				}
			}
		}
		c.lastNonFresh = map[string]bool{}
		for k, v := range d.nonFresh {
			if v <= start { // the object existed before this loop was entered
				c.lastNonFresh[k] = true
			}
		}
	}()
	c.dry++
	savedInline := len(c.inline)
	func() {
		defer func() {
			c.dry--
			c.inline = c.inline[:savedInline]
		}()
		body(d)
	}()
	return d.wvars, d.written
}

func (c *Ctx) havocWrites(s *State, wv map[*types.Var]bool, wh map[string]bool) {
	var ks []string
	for k := range wh {
		ks = append(ks, k)
	}
	sort.Strings(ks)
	for _, k := range ks {
		if strings.HasPrefix(k, "*") {
			c.pendingHavoc(s, k[1:])
		}
	}
	nonFresh := c.lastNonFresh
	entryAlloc := c.heapGet(s, "X.alloc", sA1)
	c.loopHavoc = true
	defer func() { c.loopHavoc = false }()
	for _, k := range ks {
		if !strings.HasPrefix(k, "*") {
			// objects that existed before the loop keep their contents if the loop writes this key only at objects it allocates
			if k != "X.alloc" && (strings.HasPrefix(k, "F.") || strings.HasPrefix(k, "M.") || strings.HasPrefix(k, "D.") || strings.HasPrefix(k, "V.") || strings.HasPrefix(k, "C.")) {
				hit := false
				for b := range nonFresh {
					if keyMatches(k, b) {
						hit = true
					}
				}
				if hit {
					// written at pre-existing objects, all of them known loop-invariant terms: every other pre-existing object keeps its contents
					vague := false
					var refs []string
					for b := range c.lastNfVague {
						if keyMatches(k, b) || keyMatches(b, k) {
							vague = true
						}
					}
					for b, rs := range c.lastNfRefs {
						if keyMatches(k, b) {
							refs = append(refs, rs...)
						}
					}
					for b := range nonFresh {
						if keyMatches(k, b) {
							if _, known := c.lastNfRefs[b]; !known {
								vague = true
							}
						}
					}
					if !vague && len(refs) > 0 && len(refs) <= 4 {
						sort.Strings(refs)
						oldT := c.heapGet(s, k, c.heapSort(k))
						c.heapHavoc(s, k, c.heapSort(k))
						newT := s.heap[k]
						var ne []string
						for _, r := range refs {
							ne = append(ne, not(eq("r", r)))
						}
						s.assume(fmt.Sprintf("(forall ((r Int)) (! (=> (and (= (select %s r) 1) %s) (= (select %s r) (select %s r))) :pattern ((select %s r))))", entryAlloc, strings.Join(ne, " "), newT, oldT, newT))
						continue
					}
				}
				if !hit {
					oldT := c.heapGet(s, k, c.heapSort(k))
					c.heapHavoc(s, k, c.heapSort(k))
					newT := s.heap[k]
					s.assume(fmt.Sprintf("(forall ((r Int)) (! (=> (= (select %s r) 1) (= (select %s r) (select %s r))) :pattern ((select %s r))))", entryAlloc, newT, oldT, newT))
					continue
				}
			}
			if k == "X.alloc" || k == "X.ctxdone" || k == "X.closed" {
				oldAl := c.heapGet(s, k, sA1)
				c.heapHavoc(s, k, sA1)
				newAl := s.heap[k]
				s.assume(fmt.Sprintf("(forall ((r Int)) (! (=> (= (select %s r) 1) (= (select %s r) 1)) :pattern ((select %s r))))", oldAl, newAl, oldAl))
				continue
			}
			c.heapHavoc(s, k, c.heapSort(k))
		}
	}
	// variables last: what a variable holds at the loop head exists at the loop head - with respect to the allocation
	// set as it is there (an object allocated by an earlier iteration is not in the set the loop was entered with)
	var vs []*types.Var
	for v := range wv {
		vs = append(vs, v)
	}
	sort.Slice(vs, func(i, j int) bool { return vs[i].Pos() < vs[j].Pos() })
	for _, v := range vs {
		if _, declared := s.vars[v]; !declared {
			continue // declared inside the loop
		}
		if c.boxed(v) {
			continue // contents live in the heap (havocked through the heap key)
		}
		s.vars[v] = c.freshValue(s, v.Name(), v.Type())
		c.assumeTyped(s, s.vars[v], v.Type()) // whatever the variable holds at the loop head was allocated before
		if s.wvars != nil {
			s.wvars[v] = true
		}
	}
}

func (c *Ctx) checkInvariants(s *State, li loopInfo, kind string, pos token.Pos) {
	if li.spec == nil {
		return
	}
	c.curLoop = li.ord
	for i, inv := range li.spec.Invariants {
		c.curTags = inv.Tags
		g := c.cevalBool(inv.Expr, s, nil, pos)
		c.oblige(s, fmt.Sprintf("%s:loop%d.%d", kind, li.ord, i+1), inv.Text, pos, g, inv.Tags)
	}
}

func (c *Ctx) assumeInvariants(s *State, li loopInfo, pos token.Pos) {
	if li.spec == nil {
		return
	}
	c.curLoop = li.ord
	for _, inv := range li.spec.Invariants {
		c.curTags = inv.Tags
		nb := len(c.bindingErrors)
		g := c.cevalBool(inv.Expr, s, nil, pos)
		if len(c.bindingErrors) == nb {
			s.assume(g) // a clause that does not bind is reported (contract-binding), not assumed false
		}
	}
}

func (c *Ctx) execFor(x *ast.ForStmt, s *State, label string) []Exit {
	if x.Init != nil {
		c.exec(x.Init, s)
	}
	ord := c.loopOrd[x]
	li := loopInfo{ord: ord, spec: c.con.Loops[ord], label: label}
	iter := func(st *State) []Exit {
		var out []Exit
		t, f := st, (*State)(nil)
		if x.Cond != nil {
			cond := asBool(c.eval(x.Cond, st))
			t, f = c.branch(st, cond)
			out = append(out, Exit{kind: xBreak, label: "$cond", s: f})
		}
		for _, e := range c.exec(x.Body, t) {
			if (e.kind == xFall || (e.kind == xContinue && (e.label == "" || e.label == label))) && x.Post != nil {
				for _, pe := range c.exec(x.Post, e.s) {
					pe.kind = xFall
					out = append(out, pe)
				}
				continue
			}
			out = append(out, e)
		}
		return out
	}
	return c.loopCut(x, x.Pos(), s, li, iter, nil)
}

// stableConst: r is a plain constant symbol introduced before the loop (fresh-name counter <= start)
func stableConst(r string, start int) bool {
	if strings.ContainsAny(r, "() ") {
		return false
	}
	i := strings.LastIndex(r, "~")
	if i < 0 {
		return false
	}
	n, err := strconv.Atoi(strings.TrimPrefix(r[i+1:], "e"))
	return err == nil && n <= start
}

// valueTerms lists the SMT terms a value consists of.
func valueTerms(v Value) []string {
	switch x := v.(type) {
	case IntV:
		return []string{x.T}
	case BoolV:
		return []string{x.T}
	case SliceV:
		return []string{x.Ref, x.Off, x.Len, x.Cap}
	case StructV:
		var out []string
		for _, f := range x.F {
			out = append(out, valueTerms(f)...)
		}
		return out
	case TupleV:
		var out []string
		for _, f := range x {
			out = append(out, valueTerms(f)...)
		}
		return out
	}
	return nil
}

// loopCut implements the invariant cut. iter executes one iteration from the loop head: exits of kind
// xFall/xContinue go back to the head, xBreak (matching) leave the loop.
func (c *Ctx) loopCut(node ast.Stmt, pos token.Pos, s *State, li loopInfo, iter func(*State) []Exit, atHead func(*State)) []Exit {
	if li.spec != nil {
		c.loopEntry[li.ord] = s.clone()
	}
	c.checkInvariants(s, li, "inv-init", pos)
	if li.spec != nil && li.spec.Decreases != nil {
		c.variantAt[li.ord] = "0" // placeholder during the dry run
	}
	wv, wh := c.discoverWrites(s, func(d *State) { iter(d) })
	if c.loopWrites == nil {
		c.loopWrites = map[int]map[string]bool{}
	}
	c.loopWrites[li.ord] = wh
	head := s
	c.havocWrites(head, wv, wh)
	if atHead != nil {
		atHead(head)
	}
	c.assumeInvariants(head, li, pos)
	if li.spec != nil && len(li.spec.Invariants) > 0 {
		c.smoke(head, fmt.Sprintf("loop%d.head", li.ord), pos)
	}
	var variant0 string
	if li.spec != nil && li.spec.Decreases != nil {
		variant0 = asInt(c.ceval(li.spec.Decreases.Expr, head, nil, pos))
		if len(variant0) > 20 {
			n := c.fresh("variant", sInt)
			head.assume(eq(n, variant0))
			variant0 = n
		}
		c.variantAt[li.ord] = variant0
	}
	var out []Exit
	var leave []*State
	if li.spec != nil {
		c.loopHeads[li.ord] = head.clone()
	}
	checkSteps := func(st *State, what string) {
		if li.spec == nil {
			return
		}
		c.curLoop = li.ord
		for i, sc := range li.spec.Steps {
			c.curTags = sc.Tags
			g := c.cevalBool(sc.Expr, st, nil, pos)
			c.oblige(st, fmt.Sprintf("step-%s:loop%d.%d", what, li.ord, i+1), sc.Text, pos, g, sc.Tags)
		}
	}
	for _, e := range iter(head) {
		switch {
		case e.kind == xFall || (e.kind == xContinue && (e.label == "" || e.label == li.label)):
			if e.kind == xFall && len(c.con.Ats[fmt.Sprintf("loopend %d", li.ord)]) > 0 {
				// `at loopend N`: the end of the loop body (scope: the body's last position)
				endPos := pos
				switch n := node.(type) {
				case *ast.ForStmt:
					endPos = n.Body.Rbrace - 1
				case *ast.RangeStmt:
					endPos = n.Body.Rbrace - 1
				}
				c.atClauses(e.s, fmt.Sprintf("loopend %d", li.ord), endPos)
			}
			checkSteps(e.s, "keep")
			c.checkInvariants(e.s, li, "inv-keep", pos)
			if variant0 != "" {
				v1 := asInt(c.ceval(li.spec.Decreases.Expr, e.s, nil, pos))
				c.oblige(e.s, fmt.Sprintf("dec:loop%d", li.ord), li.spec.Decreases.Text, pos, and(le("0", variant0), lt(v1, variant0)), li.spec.Decreases.Tags)
			}
		case e.kind == xBreak && (e.label == "" || e.label == "$cond" || e.label == li.label):
			checkSteps(e.s, "exit")
			leave = append(leave, e.s)
		default:
			if e.kind == xReturn {
				checkSteps(e.s, "return")
			}
			out = append(out, e)
		}
	}
	if len(leave) > 0 {
		after := c.mergeStates(leave)
		if after != nil {
			if li.spec != nil {
				for _, a := range li.spec.Asserts {
					c.curLoop = li.ord
					c.curTags = a.Tags
					g := c.cevalBool(a.Expr, after, nil, pos)
					c.oblige(after, fmt.Sprintf("exit-assert:loop%d", li.ord), a.Text, pos, g, a.Tags)
					after.assume(g)
				}
			}
			out = append(out, Exit{kind: xFall, s: after})
		}
	}
	return out
}

func (c *Ctx) execRange(x *ast.RangeStmt, s *State, label string) []Exit {
	ord := c.loopOrd[x]
	li := loopInfo{ord: ord, spec: c.con.Loops[ord], label: label}
	xt := c.typeOf(x.X)
	var keyVar, valVar *types.Var
	if id, ok := x.Key.(*ast.Ident); ok && id.Name != "_" {
		keyVar, _ = c.objOf(id).(*types.Var)
	}
	if id, ok := x.Value.(*ast.Ident); ok && id.Name != "_" {
		valVar, _ = c.objOf(id).(*types.Var)
	}
	switch u := xt.Underlying().(type) {
	case *types.Slice:
		sv := c.eval(x.X, s).(SliceV)
		n := sv.Len
		idxVar := c.eng.rangeIdxVar(x, keyVar)
		s.vars[idxVar] = IntV{"0"}
		c.loopIdxVar[ord] = idxVar
		iter := func(st *State) []Exit {
			var out []Exit
			i := asInt(st.vars[idxVar])
			t, f := c.branch(st, lt(i, n))
			out = append(out, Exit{kind: xBreak, label: "$cond", s: f})
			if valVar != nil {
				c.declVar(t, valVar, c.readElem(t, sv, i, u.Elem()))
			}
			for _, e := range c.exec(x.Body, t) {
				if e.kind == xFall || (e.kind == xContinue && (e.label == "" || e.label == label)) {
					c.setVar(e.s, idxVar, IntV{add(asInt(e.s.vars[idxVar]), "1")})
					e.kind = xFall
				}
				out = append(out, e)
			}
			return out
		}
		atHead := func(h *State) {
			i := asInt(h.vars[idxVar])
			h.assume(and(le("0", i), le(i, n)))
		}
		return c.loopCut(x, x.Pos(), s, li, iter, atHead)
	case *types.Map:
		m := asInt(c.eval(x.X, s))
		if strings.HasPrefix(m, "(") {
			// a compound term (e.g. an ite after a merge) gets a name so that quantified facts about the map keep triggers
			n := c.fresh("rngmap", sInt)
			s.assume(eq(n, m))
			m = n
		}
		name := mapKeyName(u)
		// ghost set of visited keys
		visKey := fmt.Sprintf("L.visited%d", ord)
		c.eng.setHeapSort(visKey, sA1)
		c.heapSet(s, visKey, sA1, "((as const (Array Int Int)) 0)")
		// ghost count of the iterations begun (= number of visited keys): nvisited() in contracts. Its relation to len(map)
		// - below it while a key is left, equal to it at the regular exit - is a fact about finite sets, assumed only when
		// nothing in the loop inserts into or deletes from a map of this type
		cntKey := fmt.Sprintf("L.count%d", ord)
		c.eng.setHeapSort(cntKey, sInt)
		c.heapSet(s, cntKey, sInt, "0")
		mapStable := func() bool {
			wh, ok := c.loopWrites[ord]
			return ok && !wh["D."+name] && !wh["C."+name]
		}
		mapLen := func(st *State) string {
			return ite(eq(m, "0"), "0", sel(c.heapGet(st, "C."+name, sA1), m))
		}
		iter := func(st *State) []Exit {
			var out []Exit
			dom := sel(c.heapGet(st, "D."+name, sA2), m)
			vis := c.heapGet(st, visKey, sA1)
			cnt := c.heapGet(st, cntKey, sInt)
			// exit: all visited
			f := st.clone()
			f.assume(or(eq(m, "0"), forall([]string{"k"}, "(! "+implies(eq(sel(dom, "k"), "1"), eq(sel(vis, "k"), "1"))+" :pattern ((select "+dom+" k)))")))
			if c.dry == 0 && mapStable() {
				f.assume(eq(cnt, mapLen(f)))
			}
			out = append(out, Exit{kind: xBreak, label: "$cond", s: f})
			t := st
			t.assume(not(eq(m, "0")))
			if c.dry == 0 && mapStable() {
				t.assume(lt(cnt, mapLen(t)))
			}
			c.heapSet(t, cntKey, sInt, add(cnt, "1"))
			k := c.freshValue(t, "key", u.Key())
			kt := c.keyTerm(k)
			t.assume(and(eq(sel(dom, kt), "1"), eq(sel(vis, kt), "0")))
			if keyVar != nil {
				c.declVar(t, keyVar, k)
			}
			if valVar != nil {
				v, _ := c.mapLookup(t, m, u, k)
				c.declVar(t, valVar, v)
			}
			c.heapSet(t, visKey, sA1, store(vis, kt, "1"))
			c.heapSet(t, fmt.Sprintf("L.cur%d", ord), sInt, kt)
			for _, e := range c.exec(x.Body, t) {
				if e.kind == xFall || (e.kind == xContinue && (e.label == "" || e.label == label)) {
					e.kind = xFall
				}
				out = append(out, e)
			}
			return out
		}
		atHead := func(h *State) {
			vis := c.heapGet(h, visKey, sA1)
			dom := sel(c.heapGet(h, "D."+name, sA2), m)
			// visited ⊆ domain, entries are 0/1
			h.assume(forall([]string{"k"}, "(! "+and(or(eq(sel(vis, "k"), "0"), eq(sel(vis, "k"), "1")), implies(eq(sel(vis, "k"), "1"), eq(sel(dom, "k"), "1")))+" :pattern ((select "+vis+" k)))"))
			// a nil map has no keys: nothing has been visited
			h.assume(implies(eq(m, "0"), eq(vis, "((as const (Array Int Int)) 0)")))
			cnt := c.heapGet(h, cntKey, sInt)
			h.assume(le("0", cnt))
			if mapStable() {
				h.assume(le(cnt, mapLen(h)))
			}
			c.note("map iteration is verified for an arbitrary enumeration order; the loop body is assumed not to insert into the ranged map")
		}
		return c.loopCut(x, x.Pos(), s, li, iter, atHead)
	}
	// other range forms: abstract loop (body executed for its obligations from a havocked state)
	c.eval(x.X, s)
	c.abstractNote(x.Pos(), "range over "+typeKey(xt))
	iter := func(st *State) []Exit {
		var out []Exit
		f := st.clone()
		out = append(out, Exit{kind: xBreak, label: "$cond", s: f})
		if keyVar != nil {
			c.declVar(st, keyVar, c.freshValue(st, keyVar.Name(), keyVar.Type()))
		}
		if valVar != nil {
			c.declVar(st, valVar, c.freshValue(st, valVar.Name(), valVar.Type()))
		}
		for _, e := range c.exec(x.Body, st) {
			if e.kind == xFall || (e.kind == xContinue && (e.label == "" || e.label == label)) {
				e.kind = xFall
			}
			out = append(out, e)
		}
		return out
	}
	return c.loopCut(x, x.Pos(), s, li, iter, nil)
}

// ---------------------------------------------------------------------------------------------
// switch / select

func (c *Ctx) execSwitch(x *ast.SwitchStmt, s *State) []Exit {
	if x.Init != nil {
		c.exec(x.Init, s)
	}
	var tag Value
	var tagT types.Type
	if x.Tag != nil {
		tag = c.eval(x.Tag, s)
		tagT = c.typeOf(x.Tag)
	}
	var out []Exit
	cur := s
	var deflt *ast.CaseClause
	clauses := x.Body.List
	var fallInto *State
	for idx, cl := range clauses {
		cc := cl.(*ast.CaseClause)
		if cc.List == nil {
			deflt = cc
			_ = idx
			continue
		}
		var conds []string
		for _, e := range cc.List {
			v := c.eval(e, cur)
			if tag != nil {
				conds = append(conds, c.valuesEqual(tag, v, tagT))
			} else {
				conds = append(conds, asBool(v))
			}
		}
		t, f := c.branch(cur, or(conds...))
		if fallInto != nil {
			t = c.mergeStates([]*State{t, fallInto})
			fallInto = nil
		}
		exits := c.execCaseBody(cc.Body, t)
		for _, e := range exits {
			if e.kind == xBreak && e.label == "" {
				e.kind = xFall
			}
			if e.kind == xFall && e.label == "$fallthrough" {
				fallInto = e.s
				continue
			}
			out = append(out, e)
		}
		cur = f
	}
	if deflt != nil {
		for _, e := range c.execCaseBody(deflt.Body, cur) {
			if e.kind == xBreak && e.label == "" {
				e.kind = xFall
			}
			out = append(out, e)
		}
	} else {
		out = append(out, Exit{kind: xFall, s: cur})
	}
	return out
}

func (c *Ctx) execCaseBody(body []ast.Stmt, s *State) []Exit {
	if n := len(body); n > 0 {
		if br, ok := body[n-1].(*ast.BranchStmt); ok && br.Tok == token.FALLTHROUGH {
			exits := c.execBlock(body[:n-1], s)
			for i := range exits {
				if exits[i].kind == xFall {
					exits[i].label = "$fallthrough"
				}
			}
			return exits
		}
	}
	return c.execBlock(body, s)
}

func (c *Ctx) execTypeSwitch(x *ast.TypeSwitchStmt, s *State) []Exit {
	if x.Init != nil {
		c.exec(x.Init, s)
	}
	var subject ast.Expr
	switch a := x.Assign.(type) {
	case *ast.ExprStmt:
		subject = a.X.(*ast.TypeAssertExpr).X
	case *ast.AssignStmt:
		subject = a.Rhs[0].(*ast.TypeAssertExpr).X
	}
	v := asInt(c.eval(subject, s))
	var out []Exit
	cur := s
	var deflt *ast.CaseClause
	for _, cl := range x.Body.List {
		cc := cl.(*ast.CaseClause)
		if cc.List == nil {
			deflt = cc
			continue
		}
		var conds []string
		var single types.Type
		for _, e := range cc.List {
			if id, ok := e.(*ast.Ident); ok && id.Name == "nil" {
				conds = append(conds, eq(v, "0"))
				continue
			}
			t := c.typeOf(e)
			single = t
			conds = append(conds, c.hasType(v, t))
		}
		t, f := c.branch(cur, or(conds...))
		if obj, ok := c.info().Implicits[cc].(*types.Var); ok {
			if len(cc.List) == 1 && single != nil {
				c.declVar(t, obj, c.fromInterface(t, v, single))
			} else {
				c.declVar(t, obj, IntV{v})
			}
		}
		for _, e := range c.execBlock(cc.Body, t) {
			if e.kind == xBreak && e.label == "" {
				e.kind = xFall
			}
			out = append(out, e)
		}
		cur = f
	}
	if deflt != nil {
		if obj, ok := c.info().Implicits[deflt].(*types.Var); ok {
			c.declVar(cur, obj, IntV{v})
		}
		for _, e := range c.execBlock(deflt.Body, cur) {
			if e.kind == xBreak && e.label == "" {
				e.kind = xFall
			}
			out = append(out, e)
		}
	} else {
		out = append(out, Exit{kind: xFall, s: cur})
	}
	return out
}

func (c *Ctx) execSelect(x *ast.SelectStmt, s *State) []Exit {
	var out []Exit
	n := len(x.Body.List)
	for i, cl := range x.Body.List {
		cc := cl.(*ast.CommClause)
		st := s
		if i < n-1 {
			st = s.clone()
		}
		c.eng.selectChoice(c, st, x, i)
		if cc.Comm == nil {
			// default is taken only when no other case can proceed: a receive from a closed channel (or from the Done
			// channel of a finished context) can always proceed, so in this branch those channels are still open
			for _, other := range x.Body.List {
				oc := other.(*ast.CommClause)
				if oc.Comm == nil {
					continue
				}
				var rx *ast.UnaryExpr
				switch cm := oc.Comm.(type) {
				case *ast.ExprStmt:
					rx, _ = unparen(cm.X).(*ast.UnaryExpr)
				case *ast.AssignStmt:
					if len(cm.Rhs) == 1 {
						rx, _ = unparen(cm.Rhs[0]).(*ast.UnaryExpr)
					}
				}
				if rx == nil || rx.Op != token.ARROW {
					continue
				}
				if call, ok := unparen(rx.X).(*ast.CallExpr); ok {
					if se, ok := unparen(call.Fun).(*ast.SelectorExpr); ok {
						if fn, ok := c.info().Uses[se.Sel].(*types.Func); ok && funcKey(fn) == "context.Context.Done" {
							ctx := asInt(c.eval(se.X, st))
							st.assume(eq(sel(c.heapGet(st, "X.ctxdone", sA1), ctx), "0"))
							continue
						}
					}
					continue // other calls yielding channels (timers): nothing known
				}
				ch := asInt(c.eval(rx.X, st))
				st.assume(not(eq(sel(c.heapGet(st, "X.closed", sA1), ch), "1")))
			}
			c.note("select: the default branch is taken only if no receive case could proceed (closed channels and finished contexts are always ready)")
		}
		if cc.Comm != nil {
			switch cm := cc.Comm.(type) {
			case *ast.SendStmt:
				c.execSend(cm, st)
			default:
				c.exec(cc.Comm, st)
			}
		}
		for _, e := range c.execBlock(cc.Body, st) {
			if e.kind == xBreak && e.label == "" {
				e.kind = xFall
			}
			out = append(out, e)
		}
	}
	if n == 0 {
		// select {} blocks forever
		s.assume("false")
		s.dead = true
	}
	return out
}

func (c *Ctx) execSend(x *ast.SendStmt, s *State) {
	ch := c.eval(x.Chan, s)
	v := c.eval(x.Value, s)
	c.eng.onSend(c, s, x, ch, v)
}

func (c *Ctx) execGo(x *ast.GoStmt, s *State) {
	// arguments are evaluated now; the body runs elsewhere
	for _, a := range x.Call.Args {
		c.eval(a, s)
	}
	if c.spawned == nil {
		c.spawned = map[string]bool{}
	}
	c.spawned[calleeShortName(x.Call)] = true
	c.eng.onGo(c, s, x)
}

func (c *Ctx) execDefer(x *ast.DeferStmt, s *State) {
	d := deferred{call: x.Call}
	if lit, ok := x.Call.Fun.(*ast.FuncLit); ok {
		d.fn = FuncV{Lit: lit}
	}
	dsig, _ := c.typeOf(x.Call.Fun).Underlying().(*types.Signature)
	for i, a := range x.Call.Args {
		v := c.eval(a, s)
		// arguments are converted to the parameter types now (e.g. a struct value into an interface), as for a direct call
		if dsig != nil && d.fn == nil && !x.Call.Ellipsis.IsValid() {
			var pt types.Type
			if dsig.Variadic() && i >= dsig.Params().Len()-1 {
				pt = dsig.Params().At(dsig.Params().Len() - 1).Type().(*types.Slice).Elem()
			} else if i < dsig.Params().Len() {
				pt = dsig.Params().At(i).Type()
			}
			if pt != nil {
				if _, isTup := c.info().TypeOf(a).(*types.Tuple); !isTup {
					v = c.convertTo(s, v, c.typeOf(a), pt, a)
				}
			}
		}
		d.args = append(d.args, v)
	}
	if se, ok := unparen(x.Call.Fun).(*ast.SelectorExpr); ok {
		if sel, ok := c.info().Selections[se]; ok && sel.Kind() == types.MethodVal {
			d.recv = c.eval(se.X, s)
		}
	}
	s.defers = append(s.defers, d)
}

// runDefers executes deferred calls (LIFO) on a return exit.
func (c *Ctx) runDefers(s *State) {
	ds := s.defers
	s.defers = nil
	for i := len(ds) - 1; i >= 0; i-- {
		d := ds[i]
		run := s
		var skip *State
		if d.guard != "" {
			// registered on some paths only
			skip = s.clone()
			skip.assume(not(d.guard))
			run.assume(d.guard)
		}
		if fv, ok := d.fn.(FuncV); ok && fv.Lit != nil {
			c.inlineLit(fv.Lit, d.args, run, d.call)
		} else {
			c.deferRecv = d.recv
			c.evalCallWithArgs(d.call, run, d.args)
			c.deferRecv = nil
		}
		if skip != nil {
			m := c.mergeStates([]*State{run, skip})
			*s = *m
		}
	}
}
