package main

// Symbolic evaluation of Go expressions.

import (
	"fmt"
	"go/ast"
	"go/constant"
	"go/token"
	"go/types"
	"math/big"
	"strconv"
	"strings"
)

func (c *Ctx) info() *types.Info { return c.pkg.TypesInfo }

func (c *Ctx) typeOf(e ast.Expr) types.Type {
	t := c.info().TypeOf(e)
	if t == nil {
		panic(fmt.Sprintf("no type for %s", c.text(e)))
	}
	return t
}

func (c *Ctx) text(n ast.Node) string {
	return c.eng.nodeText(n)
}

func constToValue(cv constant.Value, t types.Type, c *Ctx) Value {
	switch cv.Kind() {
	case constant.Bool:
		if constant.BoolVal(cv) {
			return BoolV{"true"}
		}
		return BoolV{"false"}
	case constant.Int:
		n, ok := new(big.Int).SetString(cv.ExactString(), 10)
		if !ok {
			panic("bad int const " + cv.ExactString())
		}
		return IntV{numBig(n)}
	case constant.String:
		return IntV{c.strLit(constant.StringVal(cv))}
	case constant.Float:
		// floats are not modelled; integers written as floats (e.g. 1e9) are
		if i, ok := constant.Int64Val(constant.ToInt(cv)); ok {
			return IntV{num(i)}
		}
		return IntV{c.fresh("float", sInt)}
	}
	panic("unsupported constant kind")
}

// strLit interns a string literal.
func (c *Ctx) strLit(s string) string {
	c.useStr()
	if s == "" {
		return "gs.empty"
	}
	if n, ok := c.strlits[s]; ok {
		return n
	}
	name := fmt.Sprintf("gs.lit%d_%s", len(c.strlits), sanitize(truncate(s, 12)))
	c.declare(name, sInt)
	c.strlits[s] = name
	return name
}

func truncate(s string, n int) string {
	if len(s) > n {
		return s[:n]
	}
	return s
}

// strLitFacts returns the defining facts of the interned literals (added to every query of the ctx).
func (c *Ctx) strLitFacts() []string {
	var out []string
	if _, ok := c.decls["gs.empty"]; !ok {
		return nil
	}
	out = append(out, eq(app("gs.len", "gs.empty"), "0"))
	out = append(out, "(forall ((s Int)) (! (>= (gs.len s) 0) :pattern ((gs.len s))))")
	out = append(out, "(forall ((s Int)) (! (=> (= (gs.len s) 0) (= s gs.empty)) :pattern ((gs.len s))))")
	names := []string{"gs.empty"}
	for _, s := range sortedKeys(c.strlits) {
		n := c.strlits[s]
		names = append(names, n)
		out = append(out, eq(app("gs.len", n), num(int64(len(s)))))
		if len(s) <= 24 {
			for i := 0; i < len(s); i++ {
				out = append(out, eq(app("gs.at", n, num(int64(i))), num(int64(s[i]))))
			}
		}
	}
	if len(names) > 1 {
		out = append(out, app("distinct", names...))
	}
	return out
}

func (c *Ctx) evalExprs(es []ast.Expr, s *State) []Value {
	var out []Value
	for _, e := range es {
		out = append(out, c.eval(e, s))
	}
	return out
}

func asInt(v Value) string {
	switch x := v.(type) {
	case IntV:
		return x.T
	case BoolV:
		return b2i(x.T)
	}
	panic(fmt.Sprintf("asInt: %T", v))
}

func asBool(v Value) string {
	switch x := v.(type) {
	case BoolV:
		return x.T
	case IntV:
		return i2b(x.T)
	}
	panic(fmt.Sprintf("asBool: %T", v))
}

// eval evaluates e in s (s may gain assumptions; side effects of calls are applied to s).
func (c *Ctx) eval(e ast.Expr, s *State) Value {
	if tv, ok := c.info().Types[e]; ok && tv.Value != nil {
		return constToValue(tv.Value, tv.Type, c)
	}
	switch x := e.(type) {
	case *ast.ParenExpr:
		return c.eval(x.X, s)
	case *ast.Ident:
		return c.evalIdent(x, s)
	case *ast.BasicLit:
		panic("basic literal without constant value")
	case *ast.BinaryExpr:
		return c.evalBinary(x, s)
	case *ast.UnaryExpr:
		return c.evalUnary(x, s)
	case *ast.StarExpr:
		p := c.eval(x.X, s)
		pt := c.typeOf(x.X).Underlying().(*types.Pointer)
		c.nilCheck(s, asInt(p), x, "nil")
		return c.loadPtr(s, asInt(p), pt.Elem())
	case *ast.SelectorExpr:
		return c.evalSelector(x, s)
	case *ast.IndexExpr:
		return c.evalIndex(x, s)
	case *ast.SliceExpr:
		return c.evalSliceExpr(x, s)
	case *ast.CallExpr:
		return c.evalCall(x, s)
	case *ast.CompositeLit:
		return c.evalComposite(x, s, false)
	case *ast.FuncLit:
		return FuncV{Lit: x}
	case *ast.TypeAssertExpr:
		v, _ := c.evalTypeAssert(x, s, false)
		return v
	case *ast.KeyValueExpr:
		panic("kv outside composite")
	}
	c.abstractNote(e.Pos(), "expr "+c.text(e))
	return c.freshValue(s, "abs", c.typeOf(e))
}

func (c *Ctx) evalIdent(x *ast.Ident, s *State) Value {
	if x.Name == "nil" {
		t := c.typeOf(x)
		if _, ok := t.Underlying().(*types.Slice); ok {
			return nilSlice
		}
		return IntV{"0"}
	}
	if x.Name == "_" {
		return NoneV{}
	}
	obj := c.info().Uses[x]
	if obj == nil {
		obj = c.info().Defs[x]
	}
	switch o := obj.(type) {
	case *types.Var:
		return c.readVar(s, o, x.Pos())
	case *types.Func:
		return FuncV{Decl: o}
	case *types.Nil:
		return IntV{"0"}
	case *types.Const:
		return constToValue(o.Val(), o.Type(), c)
	}
	panic(fmt.Sprintf("ident %s: unsupported object %T", x.Name, obj))
}

func (c *Ctx) isGlobal(v *types.Var) bool {
	return v.Parent() != nil && v.Pkg() != nil && v.Parent() == v.Pkg().Scope()
}

func globalKey(v *types.Var) string { return "G." + v.Pkg().Name() + "." + v.Name() }

func (c *Ctx) readVar(s *State, v *types.Var, pos token.Pos) Value {
	if c.isGlobal(v) {
		return c.readGlobal(s, v)
	}
	val, ok := s.vars[v]
	if !ok {
		// variable not yet seen (e.g. declared in an abstracted region): arbitrary
		val = c.freshValue(s, v.Name(), v.Type())
		s.vars[v] = val
	}
	if c.boxed(v) {
		return c.loadPtr(s, asInt(val), v.Type())
	}
	return val
}

func (c *Ctx) boxed(v *types.Var) bool { return c.eng.boxedVars[v] }

func (c *Ctx) setVar(s *State, v *types.Var, val Value) {
	if c.isGlobal(v) {
		c.writeGlobal(s, v, val)
		return
	}
	if c.boxed(v) {
		ref, ok := s.vars[v]
		if !ok {
			r := c.fresh("box."+v.Name(), sInt)
			s.assume(lt("0", r))
			c.freshRefFacts(s, r)
			c.freshRefs[r] = true
			ref = IntV{r}
			s.vars[v] = ref
		}
		c.storePtr(s, asInt(ref), v.Type(), val)
		return
	}
	val = c.nameValue(s, v.Name(), val)
	s.vars[v] = val
	if s.wvars != nil {
		s.wvars[v] = true
	}
}

// declVar introduces a new local (boxed ones get a fresh cell).
func (c *Ctx) declVar(s *State, v *types.Var, val Value) {
	if at, ok := v.Type().Underlying().(*types.Array); ok {
		if sv, isSl := val.(SliceV); !isSl || sv.Ref == "0" {
			// arrays are modelled as fixed-length slices with their own backing store (value copies are not modelled)
			n := num(at.Len())
			val = c.allocSlice(s, at.Elem(), n, n, true)
			c.note("fixed-size arrays are modelled as fixed-length slices (array value copies are not modelled)")
		}
		s.vars[v] = val
		return
	}
	if c.boxed(v) {
		delete(s.vars, v)
	}
	c.setVar(s, v, val)
}

// nameValue replaces long terms by named constants.
func (c *Ctx) nameValue(s *State, name string, v Value) Value {
	if c.inQuant > 0 {
		return v // the term may mention bound variables
	}
	switch x := v.(type) {
	case IntV:
		if len(x.T) > 48 {
			n := c.fresh(name, sInt)
			s.assume(eq(n, x.T))
			return IntV{n}
		}
	case BoolV:
		if len(x.T) > 64 {
			n := c.fresh(name, sBool)
			s.assume(eq(n, x.T))
			return BoolV{n}
		}
	case SliceV:
		r := c.nameValue(s, name+"#ref", IntV{x.Ref}).(IntV).T
		o := c.nameValue(s, name+"#off", IntV{x.Off}).(IntV).T
		l := c.nameValue(s, name+"#len", IntV{x.Len}).(IntV).T
		cp := c.nameValue(s, name+"#cap", IntV{x.Cap}).(IntV).T
		return SliceV{r, o, l, cp, x.Tail}
	}
	return v
}

func (c *Ctx) readGlobal(s *State, v *types.Var) Value {
	ls := leaves(v.Type())
	var ts []string
	isConst := c.eng.constGlobals[v]
	for _, l := range ls {
		key := globalKey(v) + l
		if isConst {
			name := sanitize(key)
			c.declare(name, sInt)
			ts = append(ts, name)
		} else {
			ts = append(ts, c.heapGet(s, key, sInt))
		}
	}
	val, _ := unflatten(ts, v.Type())
	c.assumeTyped(s, val, v.Type())
	if isConst && c.eng.nonNilGlobals[v] {
		if iv, ok := val.(IntV); ok {
			s.assume(lt("0", iv.T))
			c.constGlobalUsed(v, iv.T)
		}
	}
	if isConst && !c.eng.contentMutated[v] && c.inQuant == 0 {
		c.globalMapFacts(s, v, val)
	}
	return val
}

// globalMapFacts: a package-level map[string]string initialised by a literal and never written afterwards holds exactly
// the literal's entries (in whatever heap state it is read).
func (c *Ctx) globalMapFacts(s *State, v *types.Var, val Value) {
	if st, ok := v.Type().Underlying().(*types.Slice); ok && isByteType(st.Elem()) {
		// []byte{...} literal with constant elements
		cl, ok := unparen(c.eng.globalInits[v]).(*ast.CompositeLit)
		if !ok {
			return
		}
		pkg := c.eng.globalInitPkg[v]
		sv := val.(SliceV)
		var facts []string
		for i, el := range cl.Elts {
			tv, ok := pkg.TypesInfo.Types[el]
			if !ok || tv.Value == nil {
				return
			}
			cv := constToValue(tv.Value, tv.Type, c)
			m := c.heapGet(s, "M.byte", sA2)
			facts = append(facts, eq(sel(sel(m, sv.Ref), c.elemIndex(sv.Off, num(int64(i)))), asInt(cv)))
		}
		s.assume(and(eq(sv.Len, num(int64(len(cl.Elts)))), lt("0", sv.Ref)))
		s.assume(and(facts...))
		c.note("package-level []byte literals that are never written keep their initial contents: " + v.Pkg().Name() + "." + v.Name())
		return
	}
	mt, ok := v.Type().Underlying().(*types.Map)
	if !ok || !isStringType(mt.Key()) || !isStringType(mt.Elem()) {
		return
	}
	cl, ok := unparen(c.eng.globalInits[v]).(*ast.CompositeLit)
	if !ok {
		return
	}
	m := asInt(val)
	name := mapKeyName(mt)
	dom := sel(c.heapGet(s, "D."+name, sA2), m)
	vm := sel(c.heapGet(s, "V."+name, sA2), m)
	s.assume(lt("0", m))
	var keys []string
	for _, el := range cl.Elts {
		kv, ok := el.(*ast.KeyValueExpr)
		if !ok {
			return
		}
		kl, ok1 := kv.Key.(*ast.BasicLit)
		vl, ok2 := kv.Value.(*ast.BasicLit)
		if !ok1 || !ok2 || kl.Kind != token.STRING || vl.Kind != token.STRING {
			return
		}
		ks, _ := strconv.Unquote(kl.Value)
		vs, _ := strconv.Unquote(vl.Value)
		kid := c.strLit(ks)
		keys = append(keys, kid)
		s.assume(and(eq(sel(dom, kid), "1"), eq(sel(vm, kid), c.strLit(vs))))
	}
	var alts []string
	for _, k := range keys {
		alts = append(alts, eq("k", k))
	}
	s.assume(forall([]string{"k"}, "(! "+implies(eq(sel(dom, "k"), "1"), or(alts...))+" :pattern ((select "+dom+" k)))"))
	c.note("package-level map literals that are never written keep their initial contents: " + v.Pkg().Name() + "." + v.Name())
}

func (c *Ctx) constGlobalUsed(v *types.Var, term string) {
	if c.eng.distinctGlobals[v] {
		c.distinctRefs[term] = true
	}
}

func (c *Ctx) writeGlobal(s *State, v *types.Var, val Value) {
	c.frameEffect(s, globalKey(v))
	ls := leaves(v.Type())
	ts := flatten(val, v.Type())
	for i, l := range ls {
		c.heapSet(s, globalKey(v)+l, sInt, ts[i])
	}
}

// loadPtr reads *p for p pointing to a value of type t.
func (c *Ctx) loadPtr(s *State, ref string, t types.Type) Value {
	if st, ok := t.Underlying().(*types.Struct); ok {
		sv := StructV{F: map[string]Value{}}
		for i := 0; i < st.NumFields(); i++ {
			sv.F[st.Field(i).Name()] = c.readField(s, ref, t, st.Field(i))
		}
		return sv
	}
	ls := leaves(t)
	var ts []string
	for _, l := range ls {
		arr := c.heapGet(s, "F.box$"+typeKey(t)+".v"+l, sA1)
		ts = append(ts, sel(arr, ref))
	}
	v, _ := unflatten(ts, t)
	c.assumeTyped(s, v, t)
	return v
}

func (c *Ctx) storePtr(s *State, ref string, t types.Type, val Value) {
	if st, ok := t.Underlying().(*types.Struct); ok {
		sv, ok := val.(StructV)
		if !ok {
			panic("storePtr: struct expected")
		}
		for i := 0; i < st.NumFields(); i++ {
			fv, ok := sv.F[st.Field(i).Name()]
			if !ok {
				fv = zeroValue(st.Field(i).Type())
			}
			c.writeField(s, ref, t, st.Field(i), fv)
		}
		return
	}
	c.noteWrite(s, "F.box$"+typeKey(t)+".v", ref)
	ls := leaves(t)
	ts := flatten(val, t)
	for i, l := range ls {
		key := "F.box$" + typeKey(t) + ".v" + l
		arr := c.heapGet(s, key, sA1)
		c.heapSet(s, key, sA1, store(arr, ref, ts[i]))
	}
}

func (c *Ctx) nilCheck(s *State, ref string, at ast.Node, kind string) {
	if !c.checkPanics {
		return
	}
	c.oblige(s, kind, c.text(at), at.Pos(), not(eq(ref, "0")), c.panicTags)
}

// ---------------------------------------------------------------------------------------------

func (c *Ctx) evalUnary(x *ast.UnaryExpr, s *State) Value {
	switch x.Op {
	case token.NOT:
		return BoolV{not(asBool(c.eval(x.X, s)))}
	case token.SUB:
		v := asInt(c.eval(x.X, s))
		return c.arithResult(s, x, sub("0", v), c.typeOf(x))
	case token.ADD:
		return c.eval(x.X, s)
	case token.AND:
		return c.addrOf(x.X, s)
	case token.ARROW:
		return c.recv(x, s)
	case token.XOR:
		t := c.typeOf(x)
		v := asInt(c.eval(x.X, s))
		bits, signed, ok := intRange(t)
		if ok && !signed {
			return IntV{sub(sub(pow2(bits), "1"), v)}
		}
		return IntV{sub(sub("0", v), "1")}
	}
	c.abstractNote(x.Pos(), "unary "+x.Op.String())
	return c.freshValue(s, "abs", c.typeOf(x))
}

func (c *Ctx) recv(x *ast.UnaryExpr, s *State) Value {
	ch := c.eval(x.X, s)
	_ = ch
	// ghost effects of two well-known channel sources (trusted timer / context semantics)
	if call, ok := unparen(x.X).(*ast.CallExpr); ok {
		if se, ok := unparen(call.Fun).(*ast.SelectorExpr); ok {
			if fn, ok := c.info().Uses[se.Sel].(*types.Func); ok {
				switch funcKey(fn) {
				case "time.After":
					// the receive completes after d: ledger of time waited
					d := asInt(c.eval(call.Args[0], s))
					cur := c.heapGet(s, "X.slept", sInt)
					c.heapSet(s, "X.slept", sInt, add(cur, d))
					c.note("a receive from time.After(d) completes after d has elapsed (timer trusted); ghost ledger X.slept += d")
				case "context.Context.Done":
					ctx := asInt(c.eval(se.X, s))
					m := c.heapGet(s, "X.ctxdone", sA1)
					c.heapSet(s, "X.ctxdone", sA1, store(m, ctx, "1"))
					c.note("a receive from ctx.Done() succeeds only when the context is done (ghost X.ctxdone)")
				}
			}
		}
	}
	t := c.typeOf(x)
	if tup, ok := t.(*types.Tuple); ok {
		v := c.freshValue(s, "recv", tup.At(0).Type())
		okv := c.fresh("recvok", sBool)
		s.assume(implies(okv, c.recvdPred(asInt(ch), v, tup.At(0).Type())))
		return TupleV{v, BoolV{okv}}
	}
	v := c.freshValue(s, "recv", t)
	s.assume(c.recvdPred(asInt(ch), v, t))
	return v
}

// recvdPred: "value v was received from channel ch" (uninterpreted, per element type).
func (c *Ctx) recvdPred(ch string, v Value, t types.Type) string {
	if _, isNone := v.(NoneV); isNone {
		return "true"
	}
	flat := flatten(v, t)
	fn := sanitize("recvd." + typeKey(t))
	c.declareFun(fn, 1+len(flat), sBool)
	return app(fn, append([]string{ch}, flat...)...)
}

// addrOf evaluates &e.
func (c *Ctx) addrOf(e ast.Expr, s *State) Value {
	switch x := e.(type) {
	case *ast.ParenExpr:
		return c.addrOf(x.X, s)
	case *ast.CompositeLit:
		return c.evalComposite(x, s, true)
	case *ast.Ident:
		obj, _ := c.info().Uses[x].(*types.Var)
		if obj != nil && c.boxed(obj) {
			if _, ok := s.vars[obj]; !ok {
				c.setVar(s, obj, zeroValue(obj.Type()))
			}
			return s.vars[obj]
		}
		if obj != nil && c.isGlobal(obj) {
			// address of a global: a stable ref per global
			n := sanitize("addr." + globalKey(obj))
			c.declare(n, sInt)
			s.assume(lt("0", n))
			// contents are kept in the box heap; sync is not modelled
			c.abstractNote(e.Pos(), "address of global "+obj.Name())
			return IntV{n}
		}
	case *ast.SelectorExpr:
		// &p.f : pointer into an object; modelled as an opaque derived ref
		if sel, ok := c.info().Selections[x]; ok && sel.Kind() == types.FieldVal {
			base, bt := c.evalFieldBase(x, sel, s)
			fn := sanitize("fieldaddr." + typeKey(bt) + "." + x.Sel.Name)
			c.declareFun(fn, 1, sInt)
			r := app(fn, base)
			s.assume(lt("0", r))
			// the pointer reads the value the field holds now (scalar fields); later writes to the field or through the
			// pointer are not connected - the functions under contract take such addresses only to publish read-only
			// views (optional protobuf fields)
			ft := sel.Obj().Type()
			if _, isStruct := ft.Underlying().(*types.Struct); !isStruct && !c.isStructByValueField(sel.Obj().(*types.Var)) {
				if fv, ok := sel.Obj().(*types.Var); ok {
					cur := c.readField(s, base, bt, fv)
					ls := leaves(ft)
					ts := flatten(cur, ft)
					for i, l := range ls {
						key := "F.box$" + typeKey(ft) + ".v" + l
						arr := c.heapGet(s, key, sA1)
						s.assume(eq("(select "+arr+" "+r+")", ts[i]))
					}
				}
			}
			c.note("pointers to struct fields (&p.f) read the value the field had when the address was taken; writes to the field or through the pointer afterwards are not connected")
			return IntV{r}
		}
	case *ast.IndexExpr:
		if st, ok := c.typeOf(x.X).Underlying().(*types.Slice); ok {
			sv, isSl := c.eval(x.X, s).(SliceV)
			i := asInt(c.eval(x.Index, s))
			if isSl {
				c.boundsCheck(s, x, i, sv.Len)
				if c.freshRefs[sv.Ref] || c.freshRefs[innerRef(sv.Ref)] {
					return c.elemPointer(s, sv, i, st.Elem())
				}
			}
		} else {
			c.eval(x.X, s)
			c.eval(x.Index, s)
		}
	}
	c.abstractNote(e.Pos(), "address-of "+c.text(e))
	r := c.fresh("addr", sInt)
	s.assume(lt("0", r))
	return IntV{r}
}

func (c *Ctx) evalBinary(x *ast.BinaryExpr, s *State) Value {
	switch x.Op {
	case token.LAND, token.LOR:
		l := asBool(c.eval(x.X, s))
		// evaluate the right operand under the guard
		guard := l
		if x.Op == token.LOR {
			guard = not(l)
		}
		s2 := s.clone()
		s2.assume(guard)
		r := asBool(c.eval(x.Y, s2))
		c.joinGuarded(s, s2, guard)
		if len(r) > 80 {
			n := c.fresh("c", sBool)
			s.assume(implies(guard, eq(n, r)))
			r = n
		}
		if x.Op == token.LAND {
			return BoolV{and(l, r)}
		}
		return BoolV{or(l, r)}
	}
	lv := c.eval(x.X, s)
	rv := c.eval(x.Y, s)
	lt_ := c.typeOf(x.X)
	switch x.Op {
	case token.EQL, token.NEQ:
		rt_ := c.typeOf(x.Y)
		_, lIface := lt_.Underlying().(*types.Interface)
		_, rIface := rt_.Underlying().(*types.Interface)
		if lIface && !rIface {
			rv = c.convertTo(s, rv, rt_, lt_, x.Y)
		} else if rIface && !lIface {
			lv = c.convertTo(s, lv, lt_, rt_, x.X)
			lt_ = rt_
		}
		r := c.valuesEqual(lv, rv, lt_)
		if x.Op == token.NEQ {
			r = not(r)
		}
		return BoolV{r}
	case token.LSS, token.LEQ, token.GTR, token.GEQ:
		if isStringType(lt_) {
			c.abstractNote(x.Pos(), "string ordering")
			return BoolV{c.fresh("strcmp", sBool)}
		}
		op := map[token.Token]string{token.LSS: "<", token.LEQ: "<=", token.GTR: ">", token.GEQ: ">="}[x.Op]
		return BoolV{cmp(op, asInt(lv), asInt(rv))}
	}
	t := c.typeOf(x)
	if isStringType(t) && x.Op == token.ADD {
		return c.strConcat(s, asInt(lv), asInt(rv))
	}
	return c.intBinop(s, x, x.Op, asInt(lv), asInt(rv), t, c.typeOf(x.Y), x.Y)
}

// joinGuarded folds the effects of s2 (= s + guard, then evaluated further) back into s.
func (c *Ctx) joinGuarded(s, s2 *State, guard string) {
	// assumptions added in s2 hold under the guard
	base := s.assumes
	extra := s2.assumes.since(base)
	if len(extra) > 0 {
		extra = extra[1:] // the guard itself
	}
	for _, a := range extra {
		s.assume(implies(guard, a))
	}
	for k, v2 := range s2.heap {
		v1, ok := s.heap[k]
		if ok && v1 == v2 {
			continue
		}
		sort := c.heapSort(k)
		if !ok {
			v1 = c.heapGet(s, k, sort)
			if v1 == v2 {
				continue
			}
		}
		c.heapSet(s, k, sort, ite(guard, v2, v1))
	}
	for v, val2 := range s2.vars {
		val1, ok := s.vars[v]
		if !ok {
			s.vars[v] = val2
			continue
		}
		if !sameValue(val1, val2) {
			s.vars[v] = c.mergeValues(s, []Value{val2, val1}, []string{guard, "true"}, v.Name())
			if s.wvars != nil {
				s.wvars[v] = true
			}
		}
	}
}

func (c *Ctx) heapSort(key string) string {
	if so, ok := c.sorts[key]; ok {
		return so
	}
	if so, ok := c.eng.heapSorts[key]; ok {
		return so
	}
	switch {
	case strings.HasPrefix(key, "M."), strings.HasPrefix(key, "D."), strings.HasPrefix(key, "V."):
		return sA2
	case strings.HasPrefix(key, "G."), strings.HasPrefix(key, "X."):
		return sInt
	}
	return sA1
}

func sameValue(a, b Value) bool {
	switch x := a.(type) {
	case IntV:
		y, ok := b.(IntV)
		return ok && x.T == y.T
	case BoolV:
		y, ok := b.(BoolV)
		return ok && x.T == y.T
	case SliceV:
		y, ok := b.(SliceV)
		return ok && x == y
	case StructV:
		y, ok := b.(StructV)
		if !ok || len(x.F) != len(y.F) {
			return false
		}
		for k, v := range x.F {
			if !sameValue(v, y.F[k]) {
				return false
			}
		}
		return true
	case TupleV:
		y, ok := b.(TupleV)
		if !ok || len(x) != len(y) {
			return false
		}
		for i := range x {
			if !sameValue(x[i], y[i]) {
				return false
			}
		}
		return true
	case FuncV:
		y, ok := b.(FuncV)
		return ok && x.Lit == y.Lit && x.Decl == y.Decl
	case NoneV:
		_, ok := b.(NoneV)
		return ok
	}
	return false
}

// mergeValues builds ite(g0, v0, ite(g1, v1, ... vn)).
func (c *Ctx) mergeValues(s *State, vals []Value, guards []string, name string) Value {
	switch vals[0].(type) {
	case IntV:
		t := asInt(vals[len(vals)-1])
		for i := len(vals) - 2; i >= 0; i-- {
			t = ite(guards[i], asInt(vals[i]), t)
		}
		return c.nameValue(s, name, IntV{t})
	case BoolV:
		t := asBool(vals[len(vals)-1])
		for i := len(vals) - 2; i >= 0; i-- {
			t = ite(guards[i], asBool(vals[i]), t)
		}
		return c.nameValue(s, name, BoolV{t})
	case SliceV:
		comp := func(f func(SliceV) string, suffix string) string {
			var vs []Value
			for _, v := range vals {
				sv, ok := v.(SliceV)
				if !ok {
					sv = nilSlice
				}
				vs = append(vs, IntV{f(sv)})
			}
			return c.mergeValues(s, vs, guards, name+suffix).(IntV).T
		}
		tail := false
		for _, v := range vals {
			if sv, ok := v.(SliceV); ok && sv.Tail {
				tail = true
			}
		}
		return SliceV{comp(func(x SliceV) string { return x.Ref }, "#ref"), comp(func(x SliceV) string { return x.Off }, "#off"),
			comp(func(x SliceV) string { return x.Len }, "#len"), comp(func(x SliceV) string { return x.Cap }, "#cap"), tail}
	case StructV:
		out := StructV{F: map[string]Value{}}
		for k := range vals[0].(StructV).F {
			var vs []Value
			for _, v := range vals {
				vs = append(vs, v.(StructV).F[k])
			}
			out.F[k] = c.mergeValues(s, vs, guards, name+"."+k)
		}
		return out
	case TupleV:
		var out TupleV
		for i := range vals[0].(TupleV) {
			var vs []Value
			for _, v := range vals {
				vs = append(vs, v.(TupleV)[i])
			}
			out = append(out, c.mergeValues(s, vs, guards, fmt.Sprintf("%s.%d", name, i)))
		}
		return out
	case FuncV, NoneV:
		return vals[0]
	}
	panic(fmt.Sprintf("mergeValues: %T", vals[0]))
}

func (c *Ctx) valuesEqual(a, b Value, t types.Type) string {
	switch x := a.(type) {
	case SliceV:
		y, ok := b.(SliceV)
		if !ok {
			return eq(x.Ref, "0")
		}
		if y == nilSlice {
			return eq(x.Ref, "0")
		}
		if x == nilSlice {
			return eq(y.Ref, "0")
		}
		return and(eq(x.Ref, y.Ref), eq(x.Off, y.Off), eq(x.Len, y.Len))
	case StructV:
		y := b.(StructV)
		var cs []string
		st := t.Underlying().(*types.Struct)
		for i := 0; i < st.NumFields(); i++ {
			f := st.Field(i)
			cs = append(cs, c.valuesEqual(x.F[f.Name()], y.F[f.Name()], f.Type()))
		}
		return and(cs...)
	case BoolV:
		return eq(x.T, asBool(b))
	case IntV:
		if sv, ok := b.(SliceV); ok {
			return eq(sv.Ref, "0")
		}
		return eq(x.T, asInt(b))
	case FuncV:
		return "false" // f == nil
	case NoneV:
		return "true"
	}
	panic(fmt.Sprintf("valuesEqual %T", a))
}

func (c *Ctx) strConcat(s *State, a, b string) Value {
	c.useStr()
	r := c.fresh("cat", sInt)
	la, lb := app("gs.len", a), app("gs.len", b)
	s.assume(eq(app("gs.len", r), add(la, lb)))
	s.assume(forall([]string{"k"}, "(! "+implies(and(le("0", "k"), lt("k", la)), eq(app("gs.at", r, "k"), app("gs.at", a, "k")))+" :pattern ((gs.at "+r+" k)))"))
	s.assume(forall([]string{"k"}, "(! "+implies(and(le("0", "k"), lt("k", lb)), eq(app("gs.at", r, add(la, "k")), app("gs.at", b, "k")))+" :pattern ((gs.at "+b+" k)))"))
	return IntV{r}
}

func (c *Ctx) arithResult(s *State, at ast.Node, mathRes string, t types.Type) Value {
	bits, signed, ok := intRange(t)
	if !ok {
		return IntV{mathRes}
	}
	if !signed {
		return IntV{wrapU(mathRes, bits)}
	}
	if _, lit := isNumLit(mathRes); !lit {
		if c.checkOvf {
			h := pow2(bits - 1)
			c.oblige(s, "ovf", c.text(at), at.Pos(), and(le("(- "+h+")", mathRes), lt(mathRes, h)), c.panicTags)
		} else {
			c.note("signed integer arithmetic is treated as mathematical (no overflow obligations) in functions without `overflow checked`")
		}
	}
	return IntV{mathRes}
}

// arithResultNoOvf wraps a mathematical result into type t (wrap-around for both signednesses, no obligations).
func (c *Ctx) arithResultNoOvf(mathRes string, t types.Type) string {
	bits, signed, ok := intRange(t)
	if !ok {
		return mathRes
	}
	if signed {
		return wrapS(mathRes, bits)
	}
	return wrapU(mathRes, bits)
}

func truncDiv(a, b string) string {
	return ite(ge(a, "0"),
		ite(gt(b, "0"), app("div", a, b), sub("0", app("div", a, sub("0", b)))),
		ite(gt(b, "0"), sub("0", app("div", sub("0", a), b)), app("div", sub("0", a), sub("0", b))))
}

func (c *Ctx) intBinop(s *State, at ast.Node, op token.Token, l, r string, t types.Type, rt types.Type, rexpr ast.Expr) Value {
	bits, signed, ok := intRange(t)
	switch op {
	case token.ADD:
		return c.arithResult(s, at, add(l, r), t)
	case token.SUB:
		return c.arithResult(s, at, sub(l, r), t)
	case token.MUL:
		return c.arithResult(s, at, mul(l, r), t)
	case token.QUO, token.REM:
		if c.checkPanics {
			c.oblige(s, "div", c.text(at), at.Pos(), not(eq(r, "0")), c.panicTags)
		}
		var q string
		if ok && !signed {
			q = app("div", l, r)
		} else {
			q = truncDiv(l, r)
		}
		if op == token.QUO {
			return c.arithResult(s, at, q, t)
		}
		if ok && !signed {
			return IntV{app("mod", l, r)}
		}
		return IntV{sub(l, mul(r, q))}
	case token.SHL, token.SHR:
		if n, isLit := isNumLit(r); isLit && n.IsInt64() && n.Int64() < 256 {
			p := pow2(int(n.Int64()))
			if op == token.SHL {
				if ok && signed {
					return IntV{wrapS(mul(l, p), bits)}
				}
				return c.arithResult(s, at, mul(l, p), t)
			}
			return IntV{app("div", l, p)}
		}
	case token.AND:
		// x & (2^k - 1)
		if n, isLit := isNumLit(r); isLit {
			m := new(big.Int).Add(n, big.NewInt(1))
			if m.Sign() > 0 && new(big.Int).And(m, n).Sign() == 0 {
				return IntV{app("mod", l, m.String())}
			}
		}
		if n, isLit := isNumLit(l); isLit {
			m := new(big.Int).Add(n, big.NewInt(1))
			if m.Sign() > 0 && new(big.Int).And(m, n).Sign() == 0 {
				return IntV{app("mod", r, m.String())}
			}
		}
	}
	// uninterpreted
	fn := "bitop." + map[token.Token]string{token.AND: "and", token.OR: "or", token.XOR: "xor", token.SHL: "shl", token.SHR: "shr", token.AND_NOT: "andnot"}[op]
	c.declareFun(fn, 2, sInt)
	res := app(fn, l, r)
	s.assume(rangeFact(t, res))
	c.note("bit operations other than masks/shifts by constants are uninterpreted")
	return IntV{res}
}

// ---------------------------------------------------------------------------------------------
// selectors, fields

// evalFieldBase evaluates the object holding the selected field: returns (ref term, struct type) if the
// field lives in the heap, following embedded fields.
func (c *Ctx) evalFieldBase(x *ast.SelectorExpr, sel *types.Selection, s *State) (string, types.Type) {
	v := c.eval(x.X, s)
	t := c.typeOf(x.X)
	ref, st, _ := c.walkPath(s, v, t, sel.Index()[:len(sel.Index())-1], x)
	return ref, st
}

// walkPath follows embedded-field indices. Returns either a heap location (ref != "") with its struct type, or a by-value struct.
func (c *Ctx) walkPath(s *State, v Value, t types.Type, path []int, at ast.Node) (string, types.Type, Value) {
	ref := ""
	if p, ok := t.Underlying().(*types.Pointer); ok {
		ref = asInt(v)
		c.nilCheck(s, ref, at, "nil")
		t = p.Elem()
		v = nil
	}
	for _, idx := range path {
		st := t.Underlying().(*types.Struct)
		f := st.Field(idx)
		var fv Value
		if ref != "" {
			fv = c.readField(s, ref, t, f)
		} else {
			fv = v.(StructV).F[f.Name()]
		}
		if p, ok := f.Type().Underlying().(*types.Pointer); ok {
			ref = asInt(fv)
			c.nilCheck(s, ref, at, "nil")
			t = p.Elem()
			v = nil
		} else if _, isStruct := f.Type().Underlying().(*types.Struct); !isStruct {
			// embedded interface (or other non-struct) field: its value
			ref = ""
			t = f.Type()
			v = fv
		} else if ref != "" {
			// embedded struct by value inside a heap object: address it as a sub-object
			// modelled by a derived ref so that its fields live in its own type's field maps
			ref = c.subObject(s, ref, t, f)
			t = f.Type()
			v = nil
		} else {
			t = f.Type()
			v = fv
		}
	}
	return ref, t, v
}

// subObject gives the identity of a struct-valued field embedded by value in a heap object.
func (c *Ctx) subObject(s *State, ref string, outer types.Type, f *types.Var) string {
	fn := sanitize("sub." + typeKey(outer) + "." + f.Name())
	c.declareFun(fn, 1, sInt)
	s.assume(lt("0", app(fn, ref)))
	return app(fn, ref)
}

func (c *Ctx) evalSelector(x *ast.SelectorExpr, s *State) Value {
	if sel, ok := c.info().Selections[x]; ok {
		switch sel.Kind() {
		case types.FieldVal:
			v := c.eval(x.X, s)
			t := c.typeOf(x.X)
			idx := sel.Index()
			ref, st, sv := c.walkPath(s, v, t, idx[:len(idx)-1], x)
			f := st.Underlying().(*types.Struct).Field(idx[len(idx)-1])
			if ref != "" {
				c.guardCheck(s, st, f, x, "read")
				return c.readField(s, ref, st, f)
			}
			return sv.(StructV).F[f.Name()]
		case types.MethodVal:
			recv := c.eval(x.X, s)
			return FuncV{Decl: sel.Obj().(*types.Func), Recv: recv}
		}
	}
	// qualified identifier
	obj := c.info().Uses[x.Sel]
	switch o := obj.(type) {
	case *types.Var:
		return c.readGlobal(s, o)
	case *types.Func:
		return FuncV{Decl: o}
	case *types.Const:
		return constToValue(o.Val(), o.Type(), c)
	}
	panic("selector: unsupported " + c.text(x))
}

// struct-typed (by value) fields of heap objects are stored as sub-objects.
func (c *Ctx) isStructByValueField(f *types.Var) bool {
	_, ok := f.Type().Underlying().(*types.Struct)
	return ok
}

func (c *Ctx) evalIndex(x *ast.IndexExpr, s *State) Value {
	bt := c.typeOf(x.X)
	switch u := bt.Underlying().(type) {
	case *types.Slice:
		sv := c.eval(x.X, s).(SliceV)
		i := asInt(c.eval(x.Index, s))
		c.boundsCheck(s, x, i, sv.Len)
		return c.readElem(s, sv, i, u.Elem())
	case *types.Basic: // string
		str := asInt(c.eval(x.X, s))
		i := asInt(c.eval(x.Index, s))
		c.useStr()
		c.boundsCheck(s, x, i, app("gs.len", str))
		r := app("gs.at", str, i)
		s.assume(and(le("0", r), le(r, "255")))
		return IntV{r}
	case *types.Map:
		m := asInt(c.eval(x.X, s))
		k := c.eval(x.Index, s)
		v, ok := c.mapLookup(s, m, u, k)
		if _, isTuple := c.typeOf(x).(*types.Tuple); isTuple {
			return TupleV{v, BoolV{ok}}
		}
		return v
	case *types.Array:
		if sv, ok := c.eval(x.X, s).(SliceV); ok {
			i := asInt(c.eval(x.Index, s))
			c.boundsCheck(s, x, i, sv.Len)
			return c.readElem(s, sv, i, u.Elem())
		}
	case *types.Signature: // generic instantiation
		return c.eval(x.X, s)
	}
	c.eval(x.Index, s)
	c.abstractNote(x.Pos(), "index "+c.text(x))
	return c.freshValue(s, "abs", c.typeOf(x))
}

func (c *Ctx) boundsCheck(s *State, at ast.Node, i, n string) {
	if !c.checkPanics {
		return
	}
	c.oblige(s, "index", c.text(at), at.Pos(), and(le("0", i), lt(i, n)), c.panicTags)
}

func (c *Ctx) evalSliceExpr(x *ast.SliceExpr, s *State) Value {
	bt := c.typeOf(x.X)
	switch bt.Underlying().(type) {
	case *types.Slice, *types.Array:
		sv, isSl := c.eval(x.X, s).(SliceV)
		if !isSl {
			break
		}
		lo, hi, mx := "0", sv.Len, sv.Cap
		if x.Low != nil {
			lo = asInt(c.eval(x.Low, s))
		}
		if x.High != nil {
			hi = asInt(c.eval(x.High, s))
		}
		if x.Max != nil {
			mx = asInt(c.eval(x.Max, s))
		}
		if c.checkPanics {
			goal := and(le("0", lo), le(lo, hi), le(hi, mx), le(mx, sv.Cap))
			c.oblige(s, "slice", c.text(x), x.Pos(), goal, c.panicTags)
		}
		// s[lo:hi] of a nil slice with lo=hi=0 stays nil (ref 0 kept)
		// an explicit high bound other than len(x) may leave elements of the array visible beyond the new length
		tail := sv.Tail
		if x.High != nil && !c.isLenOf(x.High, x.X) && !c.freshRefs[sv.Ref] {
			tail = true
		}
		return SliceV{sv.Ref, add(sv.Off, lo), sub(hi, lo), sub(mx, lo), tail}
	case *types.Basic:
		str := asInt(c.eval(x.X, s))
		c.useStr()
		n := app("gs.len", str)
		lo, hi := "0", n
		if x.Low != nil {
			lo = asInt(c.eval(x.Low, s))
		}
		if x.High != nil {
			hi = asInt(c.eval(x.High, s))
		}
		if c.checkPanics {
			c.oblige(s, "slice", c.text(x), x.Pos(), and(le("0", lo), le(lo, hi), le(hi, n)), c.panicTags)
		}
		r := c.fresh("substr", sInt)
		s.assume(eq(app("gs.len", r), sub(hi, lo)))
		s.assume(forall([]string{"k"}, "(! "+implies(and(le("0", "k"), lt("k", sub(hi, lo))), eq(app("gs.at", r, "k"), app("gs.at", str, add(lo, "k"))))+" :pattern ((gs.at "+r+" k)))"))
		return IntV{r}
	}
	c.abstractNote(x.Pos(), "slice-expr "+c.text(x))
	return c.freshValue(s, "abs", c.typeOf(x))
}

// ---------------------------------------------------------------------------------------------
// maps:  D.<type> : ref -> key -> (0/1),  V.<type><leaf> : ref -> key -> leaf,  C.<type> : ref -> card

func mapKeyName(t types.Type) string { return typeKey(t) }

func (c *Ctx) keyTerm(k Value) string {
	switch x := k.(type) {
	case IntV:
		return x.T
	case BoolV:
		return b2i(x.T)
	}
	panic(fmt.Sprintf("unsupported map key %T", k))
}

func (c *Ctx) mapLookup(s *State, m string, mt *types.Map, k Value) (Value, string) {
	kt := c.keyTerm(k)
	name := mapKeyName(mt)
	dom := c.heapGet(s, "D."+name, sA2)
	present := eq(sel(sel(dom, m), kt), "1")
	var ts []string
	zs := flatten(zeroValue(mt.Elem()), mt.Elem())
	for i, l := range leaves(mt.Elem()) {
		vm := c.heapGet(s, "V."+name+l, sA2)
		ts = append(ts, ite(and(not(eq(m, "0")), present), sel(sel(vm, m), kt), zs[i]))
	}
	v, _ := unflatten(ts, mt.Elem())
	c.assumeTyped(s, v, mt.Elem())
	return v, and(not(eq(m, "0")), present)
}

func (c *Ctx) mapStore(s *State, m string, mt *types.Map, k Value, v Value, at ast.Node) {
	kt := c.keyTerm(k)
	name := mapKeyName(mt)
	c.noteWrite(s, "D."+name, m)
	c.noteWrite(s, "V."+name, m)
	c.noteWrite(s, "C."+name, m)
	if c.checkPanics {
		c.oblige(s, "nilmap", c.text(at), at.Pos(), not(eq(m, "0")), c.panicTags)
	}
	dom := c.heapGet(s, "D."+name, sA2)
	card := c.heapGet(s, "C."+name, sA1)
	was := eq(sel(sel(dom, m), kt), "1")
	c.heapSet(s, "C."+name, sA1, store(card, m, add(sel(card, m), ite(was, "0", "1"))))
	c.heapSet(s, "D."+name, sA2, store(dom, m, store(sel(dom, m), kt, "1")))
	ts := flatten(v, mt.Elem())
	for i, l := range leaves(mt.Elem()) {
		key := "V." + name + l
		vm := c.heapGet(s, key, sA2)
		c.heapSet(s, key, sA2, store(vm, m, store(sel(vm, m), kt, ts[i])))
	}
}

func (c *Ctx) mapDelete(s *State, m string, mt *types.Map, k Value) {
	kt := c.keyTerm(k)
	name := mapKeyName(mt)
	c.noteWrite(s, "D."+name, m)
	c.noteWrite(s, "C."+name, m)
	dom := c.heapGet(s, "D."+name, sA2)
	card := c.heapGet(s, "C."+name, sA1)
	was := eq(sel(sel(dom, m), kt), "1")
	c.heapSet(s, "C."+name, sA1, store(card, m, sub(sel(card, m), ite(was, "1", "0"))))
	c.heapSet(s, "D."+name, sA2, store(dom, m, store(sel(dom, m), kt, "0")))
}

func (c *Ctx) mapNew(s *State, mt *types.Map) Value {
	name := mapKeyName(mt)
	ref := c.fresh("map", sInt)
	s.assume(lt("0", ref))
	c.freshRefFacts(s, ref)
	dom := c.heapGet(s, "D."+name, sA2)
	card := c.heapGet(s, "C."+name, sA1)
	c.heapSet(s, "D."+name, sA2, store(dom, ref, "((as const (Array Int Int)) 0)"))
	c.heapSet(s, "C."+name, sA1, store(card, ref, "0"))
	return IntV{ref}
}

func (c *Ctx) mapLen(s *State, m string, mt *types.Map) string {
	card := c.heapGet(s, "C."+mapKeyName(mt), sA1)
	r := ite(eq(m, "0"), "0", sel(card, m))
	s.assume(and(le("0", sel(card, m)), le(sel(card, m), maxLen)))
	return r
}

// ---------------------------------------------------------------------------------------------
// composite literals

func (c *Ctx) evalComposite(x *ast.CompositeLit, s *State, addr bool) Value {
	t := c.typeOf(x)
	switch u := t.Underlying().(type) {
	case *types.Struct:
		sv := zeroValue(t).(StructV)
		for i, el := range x.Elts {
			if kv, ok := el.(*ast.KeyValueExpr); ok {
				name := kv.Key.(*ast.Ident).Name
				sv.F[name] = c.evalElt(kv.Value, s, fieldType(u, name))
			} else {
				sv.F[u.Field(i).Name()] = c.evalElt(el, s, u.Field(i).Type())
			}
		}
		if addr {
			ref := c.fresh("obj", sInt)
			s.assume(lt("0", ref))
			c.freshRefFacts(s, ref)
			c.storeStructDeep(s, ref, t, sv)
			s.assume(eq(c.typeOfTerm(ref), c.typeID(types.NewPointer(t))))
			return IntV{ref}
		}
		return sv
	case *types.Slice:
		n := int64(len(x.Elts))
		sl := c.allocSlice(s, u.Elem(), num(n), num(n), true)
		for i, el := range x.Elts {
			if _, ok := el.(*ast.KeyValueExpr); ok {
				c.abstractNote(x.Pos(), "keyed slice literal")
				continue
			}
			c.writeElem(s, sl, num(int64(i)), u.Elem(), c.evalElt(el, s, u.Elem()))
		}
		return sl
	case *types.Map:
		m := c.mapNew(s, u)
		for _, el := range x.Elts {
			kv := el.(*ast.KeyValueExpr)
			c.mapStore(s, asInt(m), u, c.evalElt(kv.Key, s, u.Key()), c.evalElt(kv.Value, s, u.Elem()), x)
		}
		return m
	}
	c.abstractNote(x.Pos(), "composite "+c.text(x))
	return c.freshValue(s, "abs", t)
}

// storeStructDeep stores a struct value at ref, placing by-value struct fields in sub-objects.
func (c *Ctx) storeStructDeep(s *State, ref string, t types.Type, sv StructV) {
	st := t.Underlying().(*types.Struct)
	for i := 0; i < st.NumFields(); i++ {
		f := st.Field(i)
		fv, ok := sv.F[f.Name()]
		if !ok {
			fv = zeroValue(f.Type())
		}
		c.writeField(s, ref, t, f, fv)
	}
}

func fieldType(st *types.Struct, name string) types.Type {
	for i := 0; i < st.NumFields(); i++ {
		if st.Field(i).Name() == name {
			return st.Field(i).Type()
		}
	}
	panic("no field " + name)
}

// evalElt evaluates an element of a composite literal (elided types allowed) and converts to the target type.
func (c *Ctx) evalElt(e ast.Expr, s *State, target types.Type) Value {
	if cl, ok := e.(*ast.CompositeLit); ok && cl.Type == nil {
		// elided type: type recorded by go/types
		if _, isPtr := target.Underlying().(*types.Pointer); isPtr {
			return c.evalComposite(cl, s, true)
		}
		return c.evalComposite(cl, s, false)
	}
	v := c.eval(e, s)
	return c.convertTo(s, v, c.typeOf(e), target, e)
}

// convertTo handles implicit conversions on assignment (concrete -> interface).
func (c *Ctx) convertTo(s *State, v Value, from, to types.Type, at ast.Node) Value {
	if from == nil || to == nil {
		return v
	}
	if _, toSlice := to.Underlying().(*types.Slice); toSlice {
		if _, isSl := v.(SliceV); !isSl {
			return nilSlice // untyped nil
		}
	}
	if _, toIface := to.Underlying().(*types.Interface); toIface {
		if _, fromIface := from.Underlying().(*types.Interface); !fromIface {
			return c.toInterface(s, v, from)
		}
	}
	return v
}

// ---------------------------------------------------------------------------------------------
// dynamic types

func (c *Ctx) typeOfTerm(ref string) string {
	c.declareFun("typeOf", 1, sInt)
	return app("typeOf", ref)
}

func (c *Ctx) typeID(t types.Type) string {
	name := "ty." + sanitize(typeKey(t))
	if _, ok := c.decls[name]; !ok {
		c.declare(name, sInt)
		c.typeIDs[name] = t
	}
	return name
}

func (c *Ctx) implementsPred(iface types.Type) string {
	name := "impl." + sanitize(typeKey(iface))
	if _, ok := c.decls[name]; !ok {
		c.declareFun(name, 1, sBool)
		c.ifacePreds[name] = iface
	}
	return name
}

// typeFacts: distinctness of type ids and implements facts (added to every query).
func (c *Ctx) typeFacts() []string {
	var out []string
	ids := sortedKeys(c.typeIDs)
	if len(ids) > 1 {
		out = append(out, app("distinct", ids...))
	}
	for _, id := range ids {
		out = append(out, lt("0", id))
	}
	for _, p := range sortedKeys(c.ifacePreds) {
		it := c.ifacePreds[p].Underlying().(*types.Interface)
		for _, id := range ids {
			if c.typeIDs[id] == nil {
				continue // a type outside the module: nothing known about the interfaces it implements
			}
			if types.Implements(c.typeIDs[id], it) {
				out = append(out, app(p, id))
			} else {
				out = append(out, not(app(p, id)))
			}
		}
	}
	return out
}

// toInterface converts a concrete value to an interface value (an Int ref with a dynamic type).
func (c *Ctx) toInterface(s *State, v Value, from types.Type) Value {
	if b, ok := from.Underlying().(*types.Basic); ok && b.Kind() == types.UntypedNil {
		return IntV{"0"}
	}
	switch from.Underlying().(type) {
	case *types.Pointer, *types.Map, *types.Chan, *types.Signature:
		ref := asIntOrFunc(v)
		// a nil pointer in an interface is a non-nil interface; not distinguished (noted)
		s.assume(implies(not(eq(ref, "0")), eq(c.typeOfTerm(ref), c.typeID(from))))
		return IntV{ref}
	}
	// value types: the interface value is a function of the dynamic type and the value (equal values of a comparable
	// type give equal interface values)
	ts := flatten(v, from)
	bf := sanitize("ifacebox." + typeKey(from))
	c.declareFun(bf, len(ts), sInt)
	ref := app(bf, ts...)
	s.assume(lt("0", ref))
	s.assume(eq(c.typeOfTerm(ref), c.typeID(from)))
	for i, l := range leaves(from) {
		fn := sanitize("ifaceval." + typeKey(from) + l)
		c.declareFun(fn, 1, sInt)
		s.assume(eq(app(fn, ref), ts[i]))
	}
	return IntV{ref}
}

func asIntOrFunc(v Value) string {
	if _, ok := v.(FuncV); ok {
		return "1"
	}
	return asInt(v)
}

func (c *Ctx) fromInterface(s *State, ref string, to types.Type) Value {
	switch to.Underlying().(type) {
	case *types.Pointer, *types.Map, *types.Chan, *types.Signature, *types.Interface:
		return IntV{ref}
	}
	var ts []string
	for _, l := range leaves(to) {
		fn := sanitize("ifaceval." + typeKey(to) + l)
		c.declareFun(fn, 1, sInt)
		ts = append(ts, app(fn, ref))
	}
	v, _ := unflatten(ts, to)
	c.assumeTyped(s, v, to)
	return v
}

// hasType gives the condition "interface value ref has dynamic type / implements to".
func (c *Ctx) hasType(ref string, to types.Type) string {
	if _, ok := to.Underlying().(*types.Interface); ok {
		return and(not(eq(ref, "0")), app(c.implementsPred(to), c.typeOfTerm(ref)))
	}
	return and(not(eq(ref, "0")), eq(c.typeOfTerm(ref), c.typeID(to)))
}

func (c *Ctx) evalTypeAssert(x *ast.TypeAssertExpr, s *State, commaOk bool) (Value, string) {
	v := asInt(c.eval(x.X, s))
	to := c.typeOf(x.Type)
	cond := c.hasType(v, to)
	if !commaOk {
		if _, isTuple := c.info().TypeOf(x).(*types.Tuple); isTuple {
			commaOk = true
		}
	}
	if !commaOk {
		if c.checkPanics {
			c.oblige(s, "assert-type", c.text(x), x.Pos(), cond, c.panicTags)
		}
		s.assume(cond)
		return c.fromInterface(s, v, to), "true"
	}
	// value is the zero value when the assertion fails
	val := c.fromInterface(s, v, to)
	z := zeroValue(to)
	res := c.mergeValues(s, []Value{val, z}, []string{cond, "true"}, "ta")
	return res, cond
}

// isLenOf: e is syntactically len(of)
func (c *Ctx) isLenOf(e, of ast.Expr) bool {
	call, ok := unparen(e).(*ast.CallExpr)
	if !ok || len(call.Args) != 1 {
		return false
	}
	if id, ok := call.Fun.(*ast.Ident); !ok || id.Name != "len" {
		return false
	}
	return c.text(call.Args[0]) == c.text(of)
}

// elemPointer models &s[i] for a slice allocated by the function itself. The element "moves" to an object of its own:
// the pointer is eptr(array, index) (injective), its target is initialised from the element the first time the address is
// taken, and the ghost map X.esc.<elem> records the escape. From then on the element must not be read or written through
// the slice (obligation `elemptr` at every slice access in such a function): the two views are not kept in sync.
func (c *Ctx) elemPointer(s *State, sv SliceV, idx string, elem types.Type) Value {
	tk := typeKey(elem)
	fn := sanitize("eptr." + tk)
	if _, ok := c.decls[fn]; !ok {
		c.declareFun(fn, 2, sInt)
		c.declareFun(fn+".ref", 1, sInt)
		c.declareFun(fn+".idx", 1, sInt)
	}
	pos := add(sv.Off, idx)
	p := app(fn, sv.Ref, pos)
	s.assume(lt("0", p))
	// injectivity (as a quantified fact: invariants speak about eptr(a, k) for arbitrary k)
	s.assume(fmt.Sprintf("(forall ((r Int) (k Int)) (! (and (= (%s (%s r k)) r) (= (%s (%s r k)) k)) :pattern ((%s r k))))", fn+".ref", fn, fn+".idx", fn, fn))
	escKey := "X.esc." + memKey(elem)
	esc := c.heapGet(s, escKey, sA2)
	was := eq(sel(sel(esc, sv.Ref), pos), "1")
	al := c.heapGet(s, "X.alloc", sA1)
	s.assume(implies(not(was), eq(sel(al, p), "0")))
	c.heapSetQuiet(s, "X.alloc", sA1, store(al, p, "1"))
	c.freshRefs[p] = true
	c.nfresh++
	c.allocSeq[p] = c.nfresh
	// the target starts as a copy of the element
	if st, ok := elem.Underlying().(*types.Struct); ok {
		for i := 0; i < st.NumFields(); i++ {
			f := st.Field(i)
			for _, l := range leaves(f.Type()) {
				mk := memKey(elem) + "." + f.Name() + l
				fk := "F." + tk + "." + f.Name() + l
				m := c.heapGet(s, mk, sA2)
				fa := c.heapGet(s, fk, sA1)
				c.heapSet(s, fk, sA1, store(fa, p, ite(was, sel(fa, p), sel(sel(m, sv.Ref), pos))))
			}
		}
	} else {
		for _, l := range leaves(elem) {
			mk := memKey(elem) + l
			fk := "F.box$" + tk + ".v" + l
			m := c.heapGet(s, mk, sA2)
			fa := c.heapGet(s, fk, sA1)
			c.heapSet(s, fk, sA1, store(fa, p, ite(was, sel(fa, p), sel(sel(m, sv.Ref), pos))))
		}
	}
	c.heapSet(s, escKey, sA2, store(esc, sv.Ref, store(sel(esc, sv.Ref), pos, "1")))
	c.note("pointers to elements of a slice allocated by the function (&s[i]): the element is modelled as an object of its own from then on; accesses to it through the slice are forbidden by an obligation, not modelled")
	return IntV{p}
}

// elemEscapeCheck: in a function that takes addresses of elements of []elem, an element accessed through the slice must
// not be one whose address has been taken.
func (c *Ctx) elemEscapeCheck(s *State, sv SliceV, idx string, elem types.Type, what string) {
	if !c.escTypes[memKey(elem)] || c.dry > 0 || c.inQuant > 0 {
		return
	}
	esc := c.heapGet(s, "X.esc."+memKey(elem), sA2)
	c.oblige(s, "elemptr", what, c.curPos, not(eq(sel(sel(esc, sv.Ref), add(sv.Off, idx)), "1")), nil)
}

// guardCheck: access to a field declared `guarded`: a mutex must be held by the executing goroutine.
func (c *Ctx) guardCheck(s *State, st types.Type, f *types.Var, at ast.Node, what string) {
	if c.dry > 0 || len(guardeds) == 0 {
		return
	}
	tk := typeKey(st)
	for _, g := range guardeds {
		if g.Type != tk {
			continue
		}
		for _, fn := range g.Fields {
			if fn == f.Name() {
				held := c.heapGet(s, "X.nheld", sInt)
				c.oblige(s, "guard", what+" of "+tk+"."+fn+" (guarded by "+g.By+")", at.Pos(), lt("0", held), g.Tags)
				c.note("lock discipline: fields declared `guarded` are accessed only with a mutex held (which mutex is not tracked)")
			}
		}
	}
}
