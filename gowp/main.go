package main

import (
	"encoding/json"
	"fmt"
	"os"
	"path/filepath"
	"sort"
	"strconv"
	"strings"
	"time"
)

func usage() {
	fmt.Fprintln(os.Stderr, "usage: gowp check <Cxx> quick|thorough | gowp func <key>... | gowp list | gowp replay <file>")
	os.Exit(2)
}

func envOr(k, d string) string {
	if v := os.Getenv(k); v != "" {
		return v
	}
	return d
}

func main() {
	if len(os.Args) < 2 {
		usage()
	}
	repo := envOr("GOWP_REPO", "/repo")
	verif := envOr("GOWP_VERIF", "/verif")
	switch os.Args[1] {
	case "func":
		e := newEngine(repo, verif)
		must(e.load())
		must(e.loadContracts())
		rc := 0
		for _, key := range os.Args[2:] {
			if debugFunc(e, key) {
				rc = 1
			}
		}
		os.Exit(rc)
	case "list":
		e := newEngine(repo, verif)
		must(e.load())
		must(e.loadContracts())
		for _, k := range sortedKeys(e.contracts) {
			c := e.contracts[k]
			_, inRepo := e.funcs[k]
			fmt.Printf("%-60s repo=%v props=%v clauses=%d\n", k, inRepo, e.propsOf(c), c.NClauses)
		}
	case "replay":
		if len(os.Args) < 3 {
			usage()
		}
		os.Exit(replayFile(os.Args[2]))
	case "selftest":
		os.Exit(runSelftest(repo, verif, os.Args[2:]))
	default:
		// ./check C16 quick   (also: gowp check C16 quick)
		args := os.Args[1:]
		if args[0] == "check" {
			args = args[1:]
		}
		if len(args) < 1 {
			usage()
		}
		tier := "quick"
		if len(args) > 1 {
			tier = args[1]
		}
		if t := os.Getenv("VERIF_TIER"); t != "" && len(args) < 2 {
			tier = t
		}
		seed, _ := strconv.Atoi(os.Getenv("VERIF_SEED"))
		os.Exit(runCheck(repo, verif, args[0], tier, seed))
	}
}

func must(err error) {
	if err != nil {
		fmt.Fprintln(os.Stderr, "gowp:", err)
		os.Exit(2)
	}
}

func debugFunc(e *Engine, key string) bool {
	start := time.Now()
	c, err := e.verifyFunc(key)
	if err != nil {
		fmt.Println("ERROR", err)
		return true
	}
	dir := filepath.Join(e.verif, "out", "vc", "debug")
	e.dischargeAll(c.obls, dir, 10, false)
	bad := false
	for _, o := range c.obls {
		status := "ok  "
		if o.Smoke {
			if o.Verdict == "vacuous" {
				status = "VACUOUS"
				bad = true
			}
		} else if o.Verdict != "unsat" {
			status = "FAIL"
			bad = true
		}
		fmt.Printf("%s %-8s %-7s %5.2fs %s\n", status, o.Verdict, o.Solver, o.Secs, o.Name)
		if status == "FAIL" {
			fmt.Printf("       %s:%d  %s\n", shortFile(o.Pos.Filename), o.Pos.Line, o.SMTFile)
			if len(o.Model) > 0 {
				fmt.Printf("       model: %s\n", modelSummary(o.Model, 24))
			}
		}
	}
	for _, b := range c.bindingErrors {
		fmt.Println("BINDING", b)
		bad = true
	}
	for _, a := range c.abstracted {
		fmt.Println("abstracted:", a)
	}
	fmt.Printf("%s: %d obligations, %.1fs\n", key, len(c.obls), time.Since(start).Seconds())
	return bad
}

func modelSummary(m map[string]string, max int) string {
	var ks []string
	for k := range m {
		if strings.Contains(k, "~") && !strings.Contains(k, "$") && strings.Count(k, "~") > 0 {
			// keep: fresh names are how inputs are called
		}
		ks = append(ks, k)
	}
	sort.Strings(ks)
	var parts []string
	for _, k := range ks {
		if len(parts) >= max {
			parts = append(parts, "...")
			break
		}
		parts = append(parts, k+"="+m[k])
	}
	return strings.Join(parts, " ")
}

func writeJSON(path string, v interface{}) error {
	data, err := json.MarshalIndent(v, "", " ")
	if err != nil {
		return err
	}
	os.MkdirAll(filepath.Dir(path), 0o755)
	return os.WriteFile(path, append(data, '\n'), 0o644)
}
