package main

// Replay of counterexamples on the real code through `go test -overlay`.

import (
	"encoding/hex"
	"encoding/json"
	"fmt"
	"go/types"
	"os"
	"os/exec"
	"path/filepath"
	"strconv"
	"strings"
)

type replayParam struct {
	Name  string `json:"name"`
	Kind  string `json:"kind"` // bytes | int | bool | string
	GoTyp string `json:"go_type"`
	Len   int64  `json:"len,omitempty"`
	Cap   int64  `json:"cap,omitempty"`
	Nil   bool   `json:"nil,omitempty"`
	Bytes string `json:"bytes_hex,omitempty"`
	Val   string `json:"value,omitempty"`
}

// tryReplay attempts to turn the solver's model into a failing run of the real code.
func (e *Engine) tryReplay(prop string, o *Oblig) map[string]interface{} {
	c := o.decls
	if c == nil || c.fn == nil || o.Verdict != "sat" || o.SMTFile == "" {
		return nil
	}
	sig := c.fn.Type().(*types.Signature)
	if sig.Recv() != nil {
		return map[string]interface{}{"confirmed": false, "reason": "no replay template for methods (object fixture needed)"}
	}
	type pinfo struct {
		v   *types.Var
		val Value
	}
	var ps []pinfo
	for i := 0; i < sig.Params().Len(); i++ {
		p := sig.Params().At(i)
		// entry values are keyed by the declaration's *types.Var; find by name
		var val Value
		for v, x := range c.entry.vars {
			if v.Name() == p.Name() && v.Pos() == p.Pos() {
				val = x
			}
		}
		if val == nil {
			return map[string]interface{}{"confirmed": false, "reason": "parameter " + p.Name() + " has no entry value"}
		}
		ps = append(ps, pinfo{p, val})
	}
	base, err := os.ReadFile(o.SMTFile)
	if err != nil {
		return nil
	}
	query := strings.TrimSuffix(strings.TrimSpace(string(base)), "(check-sat)")
	// prefer small inputs
	small := ""
	for _, p := range ps {
		if sv, ok := p.val.(SliceV); ok {
			small += fmt.Sprintf("(assert (<= %s 64))\n(assert (<= %s 64))\n", sv.Len, sv.Cap)
		}
	}
	var sp solverSpec
	for _, s := range solvers {
		if s.name == o.Solver {
			sp = s
		}
	}
	if sp.name == "" {
		sp = solvers[0]
	}
	memName := c.entry.heap["M.byte"]
	var model map[string]string
	var values map[string]string
	for attempt, extra := range []string{small, ""} {
		if attempt == 1 && small == "" {
			break
		}
		f1 := strings.TrimSuffix(o.SMTFile, ".smt2") + ".replay1.smt2"
		os.WriteFile(f1, []byte(query+extra+"(check-sat)\n(get-model)\n"), 0o644)
		r := runSolver(sp, f1, 10, "")
		os.Remove(f1)
		if r.verdict != "sat" {
			continue
		}
		model = parseModel(r.output)
		// second query: byte contents
		var terms []string
		ok := true
		for _, p := range ps {
			if sv, isSl := p.val.(SliceV); isSl {
				n, err1 := strconv.ParseInt(evalScalar(model, sv.Len), 10, 64)
				if err1 != nil || n > 1<<20 {
					ok = false
					break
				}
				if memName == "" {
					continue
				}
				ref := evalScalar(model, sv.Ref)
				for i := int64(0); i < n; i++ {
					terms = append(terms, fmt.Sprintf("(select (select %s %s) %d)", memName, smtNum(ref), i))
				}
			}
		}
		if !ok {
			continue
		}
		values = map[string]string{}
		if len(terms) > 0 {
			// pin the scalar part of the model, then ask for the bytes
			var pins strings.Builder
			for _, p := range ps {
				switch x := p.val.(type) {
				case SliceV:
					for _, t := range []string{x.Ref, x.Len, x.Cap} {
						if v, ok := model[t]; ok {
							fmt.Fprintf(&pins, "(assert (= %s %s))\n", t, smtNum(v))
						}
					}
				case IntV:
					if v, ok := model[x.T]; ok {
						fmt.Fprintf(&pins, "(assert (= %s %s))\n", x.T, smtNum(v))
					}
				}
			}
			f2 := strings.TrimSuffix(o.SMTFile, ".smt2") + ".replay2.smt2"
			os.WriteFile(f2, []byte(query+extra+pins.String()+"(check-sat)\n(get-value ("+strings.Join(terms, " ")+"))\n"), 0o644)
			r2 := runSolver(sp, f2, 10, "")
			os.Remove(f2)
			if r2.verdict != "sat" {
				continue
			}
			values = parseValues(r2.output)
		}
		break
	}
	if model == nil || values == nil {
		return map[string]interface{}{"confirmed": false, "reason": "could not extract a concrete model"}
	}
	var params []replayParam
	for _, p := range ps {
		rp := replayParam{Name: p.v.Name(), GoTyp: types.TypeString(p.v.Type(), func(pk *types.Package) string { return pk.Name() })}
		switch x := p.val.(type) {
		case SliceV:
			st, ok := p.v.Type().Underlying().(*types.Slice)
			if !ok || !isByteType(st.Elem()) {
				return map[string]interface{}{"confirmed": false, "reason": "no replay template for parameter type " + rp.GoTyp}
			}
			rp.Kind = "bytes"
			rp.Len, _ = strconv.ParseInt(evalScalar(model, x.Len), 10, 64)
			rp.Cap, _ = strconv.ParseInt(evalScalar(model, x.Cap), 10, 64)
			ref := evalScalar(model, x.Ref)
			rp.Nil = ref == "0"
			buf := make([]byte, rp.Len)
			for i := int64(0); i < rp.Len; i++ {
				k := fmt.Sprintf("(select (select %s %s) %d)", memName, smtNum(ref), i)
				if v, ok := values[k]; ok {
					n, _ := strconv.Atoi(v)
					buf[i] = byte(n)
				}
			}
			rp.Bytes = hex.EncodeToString(buf)
		case IntV:
			if _, _, ok := intRange(p.v.Type()); ok {
				rp.Kind = "int"
				rp.Val = evalScalar(model, x.T)
			} else {
				return map[string]interface{}{"confirmed": false, "reason": "no replay template for parameter type " + rp.GoTyp}
			}
		case BoolV:
			rp.Kind = "bool"
			rp.Val = evalScalar(model, x.T)
		default:
			return map[string]interface{}{"confirmed": false, "reason": "no replay template for parameter type " + rp.GoTyp}
		}
		params = append(params, rp)
	}
	rec := map[string]interface{}{"template": "bytes_fn", "function": c.fn.FullName(), "package_dir": relTo(e.repo, filepath.Dir(o.Pos.Filename)),
		"package": c.pkg.Name, "func_name": c.fn.Name(), "params": params, "expect": expectOf(o)}
	out, confirmed := runReplay(e.repo, rec)
	rec["outcome"] = out
	rec["confirmed"] = confirmed
	return rec
}

func isByteType(t types.Type) bool {
	b, ok := t.Underlying().(*types.Basic)
	return ok && b.Kind() == types.Uint8
}

func expectOf(o *Oblig) string {
	switch o.Kind {
	case "index", "slice", "nil", "div", "make", "assert-type", "panic", "nilmap":
		return "panic"
	}
	return "contract"
}

func smtNum(v string) string {
	if strings.HasPrefix(v, "-") {
		return "(- " + v[1:] + ")"
	}
	return v
}

func evalScalar(model map[string]string, term string) string {
	if n, ok := isNumLit(term); ok {
		return n.String()
	}
	if v, ok := model[term]; ok {
		return v
	}
	return "0"
}

// parseValues parses the answer of (get-value (...)): ((term value) ...)
func parseValues(out string) map[string]string {
	res := map[string]string{}
	i := strings.Index(out, "((")
	if i < 0 {
		return res
	}
	toks := tokenizeSexp(out[i:])
	// toks: ( ( <term tokens> <value tokens> ) ( ... ) )
	pos := 1
	for pos < len(toks) && toks[pos] == "(" {
		// read one pair
		depth := 0
		j := pos
		for ; j < len(toks); j++ {
			if toks[j] == "(" {
				depth++
			} else if toks[j] == ")" {
				depth--
				if depth == 0 {
					break
				}
			}
		}
		inner := toks[pos+1 : j]
		// term is the first s-expression
		tEnd := sexpEnd(inner, 0)
		term := joinSexp(inner[:tEnd])
		val := joinSexp(inner[tEnd:])
		if strings.HasPrefix(val, "(- ") {
			val = "-" + strings.TrimSuffix(val[3:], ")")
		}
		res[term] = val
		pos = j + 1
	}
	return res
}

func sexpEnd(toks []string, start int) int {
	if toks[start] != "(" {
		return start + 1
	}
	d := 0
	for i := start; i < len(toks); i++ {
		if toks[i] == "(" {
			d++
		} else if toks[i] == ")" {
			d--
			if d == 0 {
				return i + 1
			}
		}
	}
	return len(toks)
}

func joinSexp(toks []string) string {
	var b strings.Builder
	for i, t := range toks {
		if i > 0 && t != ")" && toks[i-1] != "(" {
			b.WriteByte(' ')
		}
		b.WriteString(t)
	}
	return b.String()
}

// runReplay generates an in-package test, injects it with -overlay and runs it against repo.
func runReplay(repo string, rec map[string]interface{}) (string, bool) {
	params, _ := rec["params"].([]replayParam)
	pkg := rec["package"].(string)
	dir := rec["package_dir"].(string)
	fn := rec["func_name"].(string)
	var b strings.Builder
	fmt.Fprintf(&b, "package %s\n\nimport (\n\t\"encoding/hex\"\n\t\"fmt\"\n\t\"testing\"\n)\n\nvar _ = hex.DecodeString\n\n", pkg)
	fmt.Fprintf(&b, "func TestGowpReplay(t *testing.T) {\n")
	var args []string
	for i, p := range params {
		name := fmt.Sprintf("a%d", i)
		switch p.Kind {
		case "bytes":
			if p.Nil {
				fmt.Fprintf(&b, "\tvar %s []byte\n", name)
			} else {
				fmt.Fprintf(&b, "\t%s := make([]byte, %d, %d)\n\t{ d, _ := hex.DecodeString(%q); copy(%s, d) }\n", name, p.Len, p.Cap, p.Bytes, name)
			}
			args = append(args, name)
		case "int":
			fmt.Fprintf(&b, "\tvar %s %s = %s\n", name, p.GoTyp, p.Val)
			args = append(args, name)
		case "bool":
			fmt.Fprintf(&b, "\tvar %s bool = %s\n", name, p.Val)
			args = append(args, name)
		}
	}
	fmt.Fprintf(&b, "\tdefer func() {\n\t\tif r := recover(); r != nil {\n\t\t\tfmt.Printf(\"GOWP-PANIC: %%v\\n\", r)\n\t\t\treturn\n\t\t}\n\t}()\n")
	fmt.Fprintf(&b, "\tres := fmt.Sprint(func() []interface{} { return gowpPack(%s(%s)) }())\n", fn, strings.Join(args, ", "))
	fmt.Fprintf(&b, "\tfmt.Printf(\"GOWP-RETURNED: %%s\\n\", res)\n}\n\nfunc gowpPack(xs ...interface{}) []interface{} { return xs }\n")
	tmp, err := os.MkdirTemp("", "gowp-replay-")
	if err != nil {
		return "mktemp failed", false
	}
	defer os.RemoveAll(tmp)
	testFile := filepath.Join(tmp, "zz_gowp_replay_test.go")
	os.WriteFile(testFile, []byte(b.String()), 0o644)
	ov := map[string]map[string]string{"Replace": {filepath.Join(repo, dir, "zz_gowp_replay_test.go"): testFile}}
	ovData, _ := json.Marshal(ov)
	ovFile := filepath.Join(tmp, "overlay.json")
	os.WriteFile(ovFile, ovData, 0o644)
	cmd := exec.Command("go", "test", "-overlay", ovFile, "-vet=off", "-count=1", "-v", "-timeout", "60s", "-run", "^TestGowpReplay$", "./"+dir)
	cmd.Dir = repo
	cmd.Env = append(os.Environ(), "GOFLAGS=-mod=mod", "GOPROXY=off", "GOSUMDB=off", "GOTOOLCHAIN=local")
	out, _ := cmd.CombinedOutput()
	rec["test_source"] = b.String()
	rec["cmd"] = "go test -overlay <overlay.json mapping " + filepath.Join(dir, "zz_gowp_replay_test.go") + " to test_source> -vet=off -count=1 -timeout 60s -run ^TestGowpReplay$ ./" + dir
	text := string(out)
	for _, l := range strings.Split(text, "\n") {
		if strings.HasPrefix(l, "GOWP-PANIC:") {
			return strings.TrimSpace(l), rec["expect"] == "panic"
		}
	}
	for _, l := range strings.Split(text, "\n") {
		if strings.HasPrefix(l, "GOWP-RETURNED:") {
			return strings.TrimSpace(l), false
		}
	}
	if strings.Contains(text, "panic:") {
		return truncate(text, 600), rec["expect"] == "panic"
	}
	return "no result: " + truncate(text, 400), false
}

// replayFile re-runs the replay recorded in a replay JSON file.
func replayFile(path string) int {
	data, err := os.ReadFile(path)
	if err != nil {
		fmt.Println("replay:", err)
		return 2
	}
	var rec map[string]interface{}
	if err := json.Unmarshal(data, &rec); err != nil {
		fmt.Println("replay:", err)
		return 2
	}
	if k, _ := rec["kind"].(string); k == "bounded" {
		// a bounded complement: the failing case is in the recorded output; re-run the in-package test on the real code
		fmt.Printf("bounded complement %v (%v)\nrecorded output:\n%v\n", rec["name"], rec["bound"], rec["output"])
		file, _ := rec["file"].(string)
		pkg, _ := rec["package"].(string)
		pat, _ := rec["pattern"].(string)
		if file == "" {
			return 1
		}
		e := newEngine(envOr("GOWP_REPO", "/repo"), envOr("GOWP_VERIF", "/verif"))
		b := e.boundedOverlay(fmt.Sprint(rec["name"]), file, pkg, pat, fmt.Sprint(rec["bound"]))
		fmt.Println("re-run:", b["result"])
		if b["result"] == "fail" {
			fmt.Println(b["output"])
			fmt.Println("violation reproduced on the real code")
			return 1
		}
		fmt.Println("violation not reproduced")
		return 0
	}
	fmt.Printf("obligation: %v\nposition:   %v\nverdict:    %v\n", rec["obligation"], rec["pos"], rec["verdict"])
	rp, ok := rec["replay"].(map[string]interface{})
	if !ok {
		fmt.Println("no executable replay recorded (no-failing-input-found); solver output:")
		fmt.Println(rec["solver_output"])
		return 1
	}
	// rebuild typed params
	raw, _ := json.Marshal(rp["params"])
	var params []replayParam
	json.Unmarshal(raw, &params)
	rp["params"] = params
	if _, ok := rp["package"].(string); !ok {
		fmt.Println("replay record incomplete:", rp["reason"])
		return 1
	}
	out, confirmed := runReplay(envOr("GOWP_REPO", "/repo"), rp)
	fmt.Println("outcome:", out)
	if confirmed {
		fmt.Println("violation reproduced on the real code")
		return 1
	}
	fmt.Println("violation not reproduced")
	return 0
}
