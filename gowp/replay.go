package main

// Replay of counterexamples on the real code through `go test -overlay`.

import (
	"fmt"
)

// tryReplay attempts to turn the solver's model into a failing run of the real code.
func (e *Engine) tryReplay(prop string, o *Oblig) map[string]interface{} {
	return nil
}

func replayFile(path string) int {
	fmt.Println("replay: not implemented for", path)
	return 2
}

