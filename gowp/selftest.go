package main

// Must-fail / must-pass corpus: property-breaking edits that compile and pass the repository's tests.

import (
	"encoding/json"
	"fmt"
	"os"
	"os/exec"
	"path/filepath"
	"sort"
	"strings"
	"sync"
)

type mutantSpec struct {
	ID       string `json:"id"`
	Property string `json:"property"`
	Status   string `json:"status_vs_304_tests"`
	Kind     string `json:"kind"`
	Expected string `json:"expected_obligation"`
	Note     string `json:"note"`
}

type mutantResult struct {
	ID       string `json:"id"`
	Property string `json:"property"`
	Kind     string `json:"kind"`
	Outcome  string `json:"outcome"` // caught | missed | pass | false-alarm | noapply | not-claimed
	Failed   []string `json:"failed_obligations,omitempty"`
}

func runSelftest(repo, verif string, args []string) int {
	pattern := ""
	if len(args) > 0 {
		pattern = args[0]
	}
	res := runMutants(repo, verif, pattern, nil)
	bad := 0
	for _, r := range res {
		fmt.Printf("%-28s %-4s %-10s %-12s %s\n", r.ID, r.Property, r.Kind, r.Outcome, strings.Join(r.Failed, " ; "))
		if r.Outcome == "missed" || r.Outcome == "false-alarm" {
			bad++
		}
	}
	if bad > 0 {
		return 1
	}
	return 0
}

func claimedProps(verif string) map[string]bool {
	out := map[string]bool{}
	data, err := os.ReadFile(filepath.Join(verif, "MANIFEST.json"))
	if err != nil {
		return out
	}
	var m struct {
		Checks []struct {
			PropertyID string `json:"property_id"`
		} `json:"checks"`
	}
	json.Unmarshal(data, &m)
	for _, c := range m.Checks {
		out[c.PropertyID] = true
	}
	return out
}

func runMutants(repo, verif, pattern string, onlyProps map[string]bool) []mutantResult {
	data, err := os.ReadFile(filepath.Join(verif, "selftest", "expect.json"))
	if err != nil {
		fmt.Println("selftest:", err)
		return nil
	}
	var specs []mutantSpec
	json.Unmarshal(data, &specs)
	var todo []mutantSpec
	for _, sp := range specs {
		if sp.Kind != "must-fail" && sp.Kind != "must-pass" {
			continue
		}
		if _, err := os.Stat(filepath.Join(verif, "selftest", "mutants", sp.ID+".patch")); err != nil {
			continue
		}
		if pattern != "" && !strings.Contains(sp.ID, pattern) && sp.Property != pattern {
			continue
		}
		if onlyProps != nil && !onlyProps[sp.Property] {
			continue
		}
		todo = append(todo, sp)
	}
	sort.Slice(todo, func(i, j int) bool { return todo[i].ID < todo[j].ID })
	results := make([]mutantResult, len(todo))
	var wg sync.WaitGroup
	sem := make(chan struct{}, 4)
	self, _ := os.Executable()
	for i, sp := range todo {
		wg.Add(1)
		go func(i int, sp mutantSpec) {
			defer wg.Done()
			sem <- struct{}{}
			defer func() { <-sem }()
			results[i] = runOneMutant(self, repo, verif, sp)
		}(i, sp)
	}
	wg.Wait()
	return results
}

func runOneMutant(self, repo, verif string, sp mutantSpec) mutantResult {
	r := mutantResult{ID: sp.ID, Property: sp.Property, Kind: sp.Kind}
	tmp, err := os.MkdirTemp("", "gowp-mut-")
	if err != nil {
		r.Outcome = "error"
		return r
	}
	defer os.RemoveAll(tmp)
	scratch := filepath.Join(tmp, "repo")
	if out, err := exec.Command("rsync", "-a", "--exclude", ".git", repo+"/", scratch+"/").CombinedOutput(); err != nil {
		r.Outcome = "error"
		r.Failed = []string{string(out)}
		return r
	}
	patch := filepath.Join(verif, "selftest", "mutants", sp.ID+".patch")
	cmd := exec.Command("patch", "-p1", "-s", "--no-backup-if-mismatch", "-F", "3", "-i", patch)
	cmd.Dir = scratch
	if out, err := cmd.CombinedOutput(); err != nil {
		r.Outcome = "noapply"
		r.Failed = []string{strings.TrimSpace(truncate(string(out), 200))}
		return r
	}
	c := exec.Command(self, "check", sp.Property, "quick")
	c.Env = append(os.Environ(), "GOWP_REPO="+scratch, "GOWP_VERIF="+verif, "GOWP_SCRATCH="+filepath.Join(tmp, "out"))
	out, err := c.CombinedOutput()
	failed := []string{}
	for _, l := range strings.Split(string(out), "\n") {
		if strings.HasPrefix(l, "FAILED ") {
			failed = append(failed, strings.TrimPrefix(l, "FAILED "))
		}
		if strings.HasPrefix(l, "tool failure") || strings.HasPrefix(l, "contract-binding") {
			failed = append(failed, l)
		}
	}
	r.Failed = failed
	violated := err != nil
	switch {
	case sp.Kind == "must-fail" && violated:
		r.Outcome = "caught"
	case sp.Kind == "must-fail":
		r.Outcome = "missed"
	case sp.Kind == "must-pass" && violated:
		r.Outcome = "false-alarm"
	default:
		r.Outcome = "pass"
	}
	return r
}
