package main

// SMT term construction (terms are SMT-LIB text) and a few light simplifications.

import (
	"fmt"
	"math/big"
	"strings"
)

const (
	sInt  = "Int"
	sBool = "Bool"
	sA1   = "(Array Int Int)"
	sA2   = "(Array Int (Array Int Int))"
	sA1B  = "(Array Int Bool)"
	sA2B  = "(Array Int (Array Int Bool))"
)

func num(n int64) string {
	if n < 0 {
		return fmt.Sprintf("(- %d)", -n)
	}
	return fmt.Sprintf("%d", n)
}

func numBig(n *big.Int) string {
	if n.Sign() < 0 {
		return "(- " + new(big.Int).Neg(n).String() + ")"
	}
	return n.String()
}

func pow2(n int) string {
	return new(big.Int).Lsh(big.NewInt(1), uint(n)).String()
}

func isNumLit(s string) (*big.Int, bool) {
	if s == "" {
		return nil, false
	}
	t := s
	neg := false
	if strings.HasPrefix(s, "(- ") && strings.HasSuffix(s, ")") {
		t = s[3 : len(s)-1]
		neg = true
	}
	for _, c := range t {
		if c < '0' || c > '9' {
			return nil, false
		}
	}
	n, ok := new(big.Int).SetString(t, 10)
	if !ok {
		return nil, false
	}
	if neg {
		n.Neg(n)
	}
	return n, true
}

func app(op string, args ...string) string {
	return "(" + op + " " + strings.Join(args, " ") + ")"
}

func and(args ...string) string {
	var out []string
	for _, a := range args {
		if a == "true" || a == "" {
			continue
		}
		if a == "false" {
			return "false"
		}
		out = append(out, a)
	}
	switch len(out) {
	case 0:
		return "true"
	case 1:
		return out[0]
	}
	return app("and", out...)
}

func or(args ...string) string {
	var out []string
	for _, a := range args {
		if a == "false" || a == "" {
			continue
		}
		if a == "true" {
			return "true"
		}
		out = append(out, a)
	}
	switch len(out) {
	case 0:
		return "false"
	case 1:
		return out[0]
	}
	return app("or", out...)
}

func not(a string) string {
	switch a {
	case "true":
		return "false"
	case "false":
		return "true"
	}
	if strings.HasPrefix(a, "(not ") && strings.HasSuffix(a, ")") {
		inner := a[5 : len(a)-1]
		if balanced(inner) {
			return inner
		}
	}
	return app("not", a)
}

func balanced(s string) bool {
	d := 0
	for i, c := range s {
		if c == '(' {
			d++
		} else if c == ')' {
			d--
			if d < 0 {
				return false
			}
			if d == 0 && i != len(s)-1 {
				return false
			}
		} else if d == 0 && (c == ' ') {
			return false
		}
	}
	return d == 0
}

func implies(a, b string) string {
	if a == "true" {
		return b
	}
	if a == "false" || b == "true" {
		return "true"
	}
	return app("=>", a, b)
}

func ite(c, a, b string) string {
	if c == "true" {
		return a
	}
	if c == "false" {
		return b
	}
	if a == b {
		return a
	}
	return app("ite", c, a, b)
}

func eq(a, b string) string {
	if a == b {
		return "true"
	}
	if x, ok := isNumLit(a); ok {
		if y, ok := isNumLit(b); ok {
			if x.Cmp(y) == 0 {
				return "true"
			}
			return "false"
		}
	}
	return app("=", a, b)
}

func arith(op string, a, b string) string {
	x, ok1 := isNumLit(a)
	y, ok2 := isNumLit(b)
	if ok1 && ok2 {
		r := new(big.Int)
		switch op {
		case "+":
			return numBig(r.Add(x, y))
		case "-":
			return numBig(r.Sub(x, y))
		case "*":
			return numBig(r.Mul(x, y))
		}
	}
	if op == "+" {
		if ok1 && x.Sign() == 0 {
			return b
		}
		if ok2 && y.Sign() == 0 {
			return a
		}
	}
	if op == "-" && ok2 && y.Sign() == 0 {
		return a
	}
	if op == "*" {
		if ok1 && x.Cmp(big.NewInt(1)) == 0 {
			return b
		}
		if ok2 && y.Cmp(big.NewInt(1)) == 0 {
			return a
		}
	}
	return app(op, a, b)
}

func add(a, b string) string { return arith("+", a, b) }
func sub(a, b string) string { return arith("-", a, b) }
func mul(a, b string) string { return arith("*", a, b) }

func cmp(op string, a, b string) string {
	x, ok1 := isNumLit(a)
	y, ok2 := isNumLit(b)
	if ok1 && ok2 {
		c := x.Cmp(y)
		var r bool
		switch op {
		case "<":
			r = c < 0
		case "<=":
			r = c <= 0
		case ">":
			r = c > 0
		case ">=":
			r = c >= 0
		}
		if r {
			return "true"
		}
		return "false"
	}
	return app(op, a, b)
}

func le(a, b string) string { return cmp("<=", a, b) }
func lt(a, b string) string { return cmp("<", a, b) }
func ge(a, b string) string { return cmp(">=", a, b) }
func gt(a, b string) string { return cmp(">", a, b) }

func sel(a, i string) string      { return app("select", a, i) }
func store(a, i, v string) string { return app("store", a, i, v) }

// wrapU wraps t into [0, 2^bits).
func wrapU(t string, bits int) string {
	if n, ok := isNumLit(t); ok {
		m := new(big.Int).Lsh(big.NewInt(1), uint(bits))
		r := new(big.Int).Mod(n, m)
		return numBig(r)
	}
	return app("mod", t, pow2(bits))
}

// wrapS wraps t into [-2^(bits-1), 2^(bits-1)).
func wrapS(t string, bits int) string {
	half := pow2(bits - 1)
	if n, ok := isNumLit(t); ok {
		m := new(big.Int).Lsh(big.NewInt(1), uint(bits))
		h := new(big.Int).Lsh(big.NewInt(1), uint(bits-1))
		r := new(big.Int).Add(n, h)
		r.Mod(r, m)
		r.Sub(r, h)
		return numBig(r)
	}
	return sub(app("mod", add(t, half), pow2(bits)), half)
}

func b2i(b string) string {
	if b == "true" {
		return "1"
	}
	if b == "false" {
		return "0"
	}
	return app("ite", b, "1", "0")
}

func i2b(i string) string {
	if i == "1" {
		return "true"
	}
	if i == "0" {
		return "false"
	}
	if strings.HasPrefix(i, "(ite ") && strings.HasSuffix(i, " 1 0)") {
		inner := i[5 : len(i)-5]
		if balanced(inner) {
			return inner
		}
	}
	return app("not", app("=", i, "0"))
}

func forall(vars []string, body string) string {
	if body == "true" {
		return "true"
	}
	var vs []string
	for _, v := range vars {
		vs = append(vs, "("+v+" Int)")
	}
	return "(forall (" + strings.Join(vs, " ") + ") " + body + ")"
}

func exists(vars []string, body string) string {
	var vs []string
	for _, v := range vars {
		vs = append(vs, "("+v+" Int)")
	}
	return "(exists (" + strings.Join(vs, " ") + ") " + body + ")"
}

// cons is a persistent list of assumptions.
type cons struct {
	head string
	tail *cons
	n    int
}

func (c *cons) push(a string) *cons {
	n := 1
	if c != nil {
		n = c.n + 1
	}
	return &cons{head: a, tail: c, n: n}
}

func (c *cons) slice() []string {
	var out []string
	for p := c; p != nil; p = p.tail {
		out = append(out, p.head)
	}
	for i, j := 0, len(out)-1; i < j; i, j = i+1, j-1 {
		out[i], out[j] = out[j], out[i]
	}
	return out
}

func (c *cons) len() int {
	if c == nil {
		return 0
	}
	return c.n
}

// since returns the assumptions pushed after base (base must be a suffix-ancestor of c).
func (c *cons) since(base *cons) []string {
	var out []string
	for p := c; p != base && p != nil; p = p.tail {
		out = append(out, p.head)
	}
	for i, j := 0, len(out)-1; i < j; i, j = i+1, j-1 {
		out[i], out[j] = out[j], out[i]
	}
	return out
}

func commonAncestor(a, b *cons) *cons {
	for a.len() > b.len() {
		a = a.tail
	}
	for b.len() > a.len() {
		b = b.tail
	}
	for a != b {
		a = a.tail
		b = b.tail
	}
	return a
}
