package main

// SMT emission and the solver portfolio.

import (
	"context"
	"fmt"
	"os"
	"os/exec"
	"path/filepath"
	"sort"
	"strings"
	"sync"
	"syscall"
	"time"
)

type solverSpec struct {
	name string
	cmd  []string // file appended
	tflag func(sec int) []string
}

var solvers = []solverSpec{
	{"z3-new", []string{"z3-new"}, func(s int) []string { return []string{fmt.Sprintf("-T:%d", s)} }},
	{"z3", []string{"z3"}, func(s int) []string { return []string{fmt.Sprintf("-T:%d", s)} }},
	{"cvc5", []string{"cvc5", "--incremental"}, func(s int) []string { return []string{fmt.Sprintf("--tlimit=%d", s*1000)} }},
}

// smtText renders the query of an obligation.
func (e *Engine) smtText(o *Oblig) string {
	if o.lemmaFile != "" {
		data, err := os.ReadFile(o.lemmaFile)
		if err != nil {
			return "(error \"cannot read lemma file\")"
		}
		text := string(data)
		return "(set-option :produce-models true)\n(set-logic ALL)\n; " + o.Name + "\n" + e.preludeFor(text) + text + "\n(check-sat)\n"
	}
	c := o.decls
	var body strings.Builder
	for _, n := range c.declOrder {
		so := c.decls[n]
		if strings.HasPrefix(so, "FUN ") {
			fmt.Fprintf(&body, "(declare-fun %s %s)\n", n, so[4:])
		} else {
			fmt.Fprintf(&body, "(declare-const %s %s)\n", n, so)
		}
	}
	for _, f := range c.strLitFacts() {
		fmt.Fprintf(&body, "(assert %s)\n", f)
	}
	for _, f := range c.typeFacts() {
		fmt.Fprintf(&body, "(assert %s)\n", f)
	}
	for _, m := range sortedKeys(c.byteMems) {
		fmt.Fprintf(&body, "(assert (forall ((r Int) (i Int)) (! (and (<= 0 (select (select %s r) i)) (<= (select (select %s r) i) 255)) :pattern ((select (select %s r) i)))))\n", m, m, m)
	}
	for _, a := range sortedKeys(c.byteArrs) {
		fmt.Fprintf(&body, "(assert (forall ((i Int)) (! (and (<= 0 (select %s i)) (<= (select %s i) 255)) :pattern ((select %s i)))))\n", a, a, a)
	}
	if len(c.distinctRefs) > 1 {
		fmt.Fprintf(&body, "(assert (distinct %s))\n", strings.Join(sortedKeys(c.distinctRefs), " "))
	}
	for i, a := range o.Assumes.slice() {
		_ = i
		fmt.Fprintf(&body, "(assert %s)\n", a)
	}
	fmt.Fprintf(&body, "(assert (not %s))\n", o.Goal)
	text := body.String()
	pre := e.preludeFor(text)
	var sb strings.Builder
	sb.WriteString("(set-option :produce-models true)\n(set-logic ALL)\n")
	fmt.Fprintf(&sb, "; obligation %s\n; at %s:%d\n", o.Name, shortFile(o.Pos.Filename), o.Pos.Line)
	sb.WriteString(pre)
	sb.WriteString(text)
	sb.WriteString("(check-sat)\n")
	return sb.String()
}

type runResult struct {
	verdict string // unsat | sat | unknown | timeout | error
	output  string
	secs    float64
}

func runSolver(sp solverSpec, file string, timeoutSec int, extra string) runResult {
	return runSolverCtx(context.Background(), sp, file, timeoutSec)
}

func runSolverCtx(parent context.Context, sp solverSpec, file string, timeoutSec int) runResult {
	args := append([]string{}, sp.cmd[1:]...)
	args = append(args, sp.tflag(timeoutSec)...)
	args = append(args, file)
	ctx, cancel := context.WithTimeout(parent, time.Duration(timeoutSec+2)*time.Second)
	defer cancel()
	cmd := exec.CommandContext(ctx, sp.cmd[0], args...)
	cmd.SysProcAttr = &syscall.SysProcAttr{Setpgid: true}
	cmd.Cancel = func() error { return syscall.Kill(-cmd.Process.Pid, syscall.SIGKILL) }
	start := time.Now()
	out, _ := cmd.CombinedOutput()
	secs := time.Since(start).Seconds()
	text := string(out)
	first := ""
	for _, l := range strings.Split(text, "\n") {
		l = strings.TrimSpace(l)
		if l != "" {
			first = l
			break
		}
	}
	r := runResult{output: text, secs: secs}
	if parent.Err() != nil {
		r.verdict = "cancelled"
		return r
	}
	switch {
	case strings.Contains(text, "(error") && first != "unsat" && first != "sat":
		r.verdict = "error"
	case first == "unsat":
		r.verdict = "unsat"
	case first == "sat":
		r.verdict = "sat"
	case first == "timeout" || ctx.Err() != nil:
		r.verdict = "timeout"
	default:
		r.verdict = "unknown"
	}
	if strings.Contains(text, "(error") && r.verdict == "sat" {
		// z3 prints errors and continues: an answer after an error is not trusted
		r.verdict = "error"
	}
	return r
}

// discharge runs the portfolio on one obligation.
func (e *Engine) discharge(o *Oblig, dir string, timeoutSec int, thorough bool) {
	if o.Kind == "static" {
		return // decided by a syntactic scan when the obligation was created
	}
	text := e.smtText(o)
	fname := filepath.Join(dir, sanitizeFile(o.Name)+".smt2")
	os.MkdirAll(dir, 0o755)
	os.WriteFile(fname, []byte(text), 0o644)
	o.SMTFile = fname
	if len(text) > 1<<20 {
		o.Verdict = "unknown"
		o.Output = "query larger than 1 MiB; not sent to the solvers"
		return
	}
	if o.Smoke {
		// only a provable `false` is a failure
		r := runSolver(solvers[0], fname, 2, "")
		o.Solver, o.Secs, o.Output = solvers[0].name, r.secs, r.output
		if r.verdict == "unsat" {
			o.Verdict = "vacuous"
			if o.Before != nil {
				// call-site probe: vacuous only if the path was alive before the call's postconditions were assumed
				b := *o
				b.Assumes, b.Before = o.Before, nil
				bf := strings.TrimSuffix(fname, ".smt2") + ".before.smt2"
				os.WriteFile(bf, []byte(e.smtText(&b)), 0o644)
				if rb := runSolver(solvers[0], bf, 2, ""); rb.verdict == "unsat" {
					o.Verdict = "ok"
					o.Output += "\n(the path was already infeasible before the call)"
				}
			}
		} else {
			o.Verdict = "ok"
		}
		return
	}
	// stage 1: z3-new alone, short
	r := runSolver(solvers[0], fname, 3, "")
	o.Output = fmt.Sprintf("[%s %.2fs] %s", solvers[0].name, r.secs, strings.TrimSpace(firstLines(r.output, 3)))
	if r.verdict == "unsat" {
		o.Verdict, o.Solver, o.Secs, o.Agree = "unsat", solvers[0].name, r.secs, 1
		if !thorough {
			return
		}
	}
	// stage 1b: the same query with hypotheses dropped (always sound for a proof): first without the quantified
	// hypotheses that do not share a heap/array symbol with the goal, then without any top-level quantified hypothesis
	if r.verdict != "unsat" && r.verdict != "sat" && o.lemmaFile == "" {
		for vi, variant := range prunedVariants(text) {
			pf := strings.TrimSuffix(fname, ".smt2") + fmt.Sprintf(".pruned%d.smt2", vi+1)
			os.WriteFile(pf, []byte(variant), 0o644)
			// all solvers race on the pruned variant: which one copes with the remaining quantifiers varies
			type pres struct {
				sp solverSpec
				r  runResult
			}
			pch := make(chan pres, len(solvers))
			pctx, pcancel := context.WithCancel(context.Background())
			for _, sp := range solvers {
				go func(sp solverSpec) { pch <- pres{sp, runSolverCtx(pctx, sp, pf, 5)} }(sp)
			}
			var pr runResult
			prName := solvers[0].name
			for range solvers {
				x := <-pch
				if x.r.verdict == "unsat" && pr.verdict != "unsat" {
					pr, prName = x.r, x.sp.name
					pcancel()
				}
			}
			pcancel()
			o.Output += fmt.Sprintf("\n[%s pruned%d %.2fs] %s", prName, vi+1, pr.secs, strings.TrimSpace(firstLines(pr.output, 1)))
			if pr.verdict == "unsat" {
				o.Verdict, o.Solver, o.Secs, o.Agree = "unsat", prName+fmt.Sprintf("(pruned%d)", vi+1), pr.secs, 1
				o.SMTFile = pf
				if !thorough {
					return
				}
				break
			}
			os.Remove(pf)
		}
		if o.Verdict == "unsat" && thorough {
			return
		}
	}
	if r.verdict == "sat" {
		o.Verdict, o.Solver, o.Secs = "sat", solvers[0].name, r.secs
		o.Model = e.getModel(solvers[0], fname, timeoutSec)
		return
	}
	// stage 2: all solvers in parallel; the first definite answer wins (thorough: wait for all, record agreement)
	type res struct {
		sp solverSpec
		r  runResult
	}
	ch := make(chan res, len(solvers))
	cctx, cancelAll := context.WithCancel(context.Background())
	defer cancelAll()
	for _, sp := range solvers {
		go func(sp solverSpec) { ch <- res{sp, runSolverCtx(cctx, sp, fname, timeoutSec)} }(sp)
	}
	agree := 0
	var total float64
	for range solvers {
		x := <-ch
		if x.r.verdict == "cancelled" {
			continue
		}
		o.Output += fmt.Sprintf("\n[%s %.2fs] %s", x.sp.name, x.r.secs, strings.TrimSpace(firstLines(x.r.output, 3)))
		switch x.r.verdict {
		case "unsat":
			agree++
			if o.Verdict != "unsat" || x.r.secs < o.Secs {
				o.Solver, o.Secs = x.sp.name, x.r.secs
			}
			if o.Verdict == "sat" {
				o.Verdict = "conflict"
			} else if o.Verdict != "conflict" {
				o.Verdict = "unsat"
			}
			if !thorough {
				cancelAll()
			}
		case "sat":
			if o.Verdict == "unsat" {
				o.Verdict = "conflict"
			} else if o.Verdict != "conflict" {
				o.Verdict, o.Solver, o.Secs = "sat", x.sp.name, x.r.secs
			}
			if !thorough {
				cancelAll()
			}
		}
		total += x.r.secs
	}
	o.Agree = agree
	if o.Verdict == "" && o.lemmaFile == "" {
		// stage 3 (only reached when nothing answered): the short stages may have been starved on a loaded machine - the
		// pruned variants again with a long limit, on every solver. A goal that is really not provable costs this extra
		// time once; a goal that is provable must not be reported because the machine was busy.
		long := timeoutSec * 3
		for vi, variant := range prunedVariants(text) {
			pf := strings.TrimSuffix(fname, ".smt2") + fmt.Sprintf(".pruned%d.smt2", vi+1)
			os.WriteFile(pf, []byte(variant), 0o644)
			ch3 := make(chan res, len(solvers))
			c3, cancel3 := context.WithCancel(context.Background())
			for _, sp := range solvers {
				go func(sp solverSpec) { ch3 <- res{sp, runSolverCtx(c3, sp, pf, long)} }(sp)
			}
			for range solvers {
				x := <-ch3
				if x.r.verdict == "unsat" && o.Verdict == "" {
					o.Verdict, o.Solver, o.Secs, o.Agree = "unsat", x.sp.name+fmt.Sprintf("(pruned%d,slow)", vi+1), x.r.secs, 1
					o.SMTFile = pf
					cancel3()
				}
			}
			cancel3()
			if o.Verdict == "unsat" {
				break
			}
			os.Remove(pf)
		}
	}
	if o.Verdict == "" {
		o.Verdict = "unknown"
		o.Secs = total
	}
	if o.Verdict == "sat" {
		for _, sp := range solvers {
			if sp.name == o.Solver {
				o.Model = e.getModel(sp, fname, timeoutSec)
			}
		}
	}
}

// prunedVariants returns weaker-hypothesis versions of a query. Lines are one assert each (as emitted by smtText).
func prunedVariants(text string) []string {
	lines := strings.Split(text, "\n")
	goalIdx := -1
	for i := len(lines) - 1; i >= 0; i-- {
		if strings.HasPrefix(lines[i], "(assert (not ") {
			goalIdx = i
			break
		}
	}
	if goalIdx < 0 {
		return nil
	}
	goalSyms := map[string]bool{}
	for _, m := range symRe.FindAllString(lines[goalIdx], -1) {
		if strings.Contains(m, "~") || strings.HasPrefix(m, "G.") {
			goalSyms[m] = true
		}
	}
	var rel, none []string
	nq := 0
	for i, l := range lines {
		if i != goalIdx && strings.HasPrefix(l, "(assert (forall") && !strings.Contains(l, ":pattern ((ix ") && !strings.Contains(l, "gs.len") {
			nq++
			keep := false
			for _, m := range symRe.FindAllString(l, -1) {
				if goalSyms[m] {
					keep = true
					break
				}
			}
			if keep {
				rel = append(rel, l)
			}
			continue
		}
		rel = append(rel, l)
		none = append(none, l)
	}
	if nq == 0 {
		return nil
	}
	return []string{strings.Join(rel, "\n"), strings.Join(none, "\n")}
}

func firstLines(s string, n int) string {
	ls := strings.Split(strings.TrimSpace(s), "\n")
	if len(ls) > n {
		ls = ls[:n]
	}
	return strings.Join(ls, " | ")
}

func sanitizeFile(s string) string {
	var b strings.Builder
	for _, r := range s {
		switch {
		case r >= 'a' && r <= 'z', r >= 'A' && r <= 'Z', r >= '0' && r <= '9', r == '_', r == '.', r == '-', r == '#', r == '@':
			b.WriteRune(r)
		default:
			b.WriteRune('_')
		}
	}
	out := b.String()
	if len(out) > 150 {
		h := 0
		for _, ch := range s {
			h = h*31 + int(ch)
		}
		if h < 0 {
			h = -h
		}
		out = out[:130] + fmt.Sprintf("_%x", h)
	}
	return out
}

// getModel reruns with (get-model) and extracts scalar constants.
func (e *Engine) getModel(sp solverSpec, fname string, timeoutSec int) map[string]string {
	data, err := os.ReadFile(fname)
	if err != nil {
		return nil
	}
	mf := strings.TrimSuffix(fname, ".smt2") + ".model.smt2"
	os.WriteFile(mf, append(data, []byte("(get-model)\n")...), 0o644)
	defer os.Remove(mf)
	r := runSolver(sp, mf, timeoutSec, "")
	if r.verdict != "sat" {
		return nil
	}
	os.WriteFile(strings.TrimSuffix(fname, ".smt2")+".model.txt", []byte(r.output), 0o644)
	return parseModel(r.output)
}


func parseModel(out string) map[string]string {
	m := map[string]string{}
	// normalise: join lines of each define-fun
	toks := tokenizeSexp(out)
	for i := 0; i+5 < len(toks); i++ {
		if toks[i] == "(" && toks[i+1] == "define-fun" && toks[i+3] == "(" && toks[i+4] == ")" {
			name := strings.Trim(toks[i+2], "|")
			sortTok := toks[i+5]
			if sortTok != "Int" && sortTok != "Bool" {
				continue
			}
			j := i + 6
			if j < len(toks) {
				if toks[j] == "(" && j+3 < len(toks) && toks[j+1] == "-" {
					m[name] = "-" + toks[j+2]
				} else if toks[j] != "(" {
					m[name] = toks[j]
				}
			}
		}
	}
	return m
}

// dischargeAll runs all obligations in parallel.
func (e *Engine) dischargeAll(obls []*Oblig, dir string, timeoutSec int, thorough bool) {
	workers := 12
	var wg sync.WaitGroup
	ch := make(chan *Oblig)
	for i := 0; i < workers; i++ {
		wg.Add(1)
		go func() {
			defer wg.Done()
			for o := range ch {
				e.discharge(o, dir, timeoutSec, thorough)
			}
		}()
	}
	sort.SliceStable(obls, func(i, j int) bool { return obls[i].Name < obls[j].Name })
	for _, o := range obls {
		ch <- o
	}
	close(ch)
	wg.Wait()
}
