package main

// Symbolic values, state, heap model.

import (
	"fmt"
	"os"
	"go/ast"
	"go/token"
	"go/types"
	"sort"
	"strings"
)

type Value interface{}

type IntV struct{ T string }  // every integer, pointer, interface, map, chan, func value, string id
type BoolV struct{ T string } // Bool-sorted
// Tail: the slice was cut with an explicit high bound in this function, so elements of its backing array beyond Len may
// be visible through another slice value; an append that fits its capacity writes them in place.
type SliceV struct {
	Ref, Off, Len, Cap string
	Tail               bool
}
type StructV struct {
	F map[string]Value
}
type TupleV []Value
type FuncV struct {
	Lit  *ast.FuncLit
	Decl *types.Func // method value / function value of a declared func (not inlined)
	Recv Value
}
type NoneV struct{}

func (s SliceV) isNil() string { return eq(s.Ref, "0") }

var nilSlice = SliceV{"0", "0", "0", "0", false}

// ---------------------------------------------------------------------------------------------

type State struct {
	assumes *cons
	vars    map[*types.Var]Value
	heap    map[string]string // heap key -> current SMT term
	written map[string]bool   // heap keys / var ids written (tracked for loop frames)
	nonFresh map[string]int   // base keys written -> smallest allocation stamp of the objects written (0 = pre-existing / unknown)
	nfRefs   map[string]map[string]int // base key -> object terms written through noteWrite (with their allocation stamps)
	nfWhole  map[string]bool           // keys / prefixes havocked without a known object (callee frames, pending havocs)
	wvars   map[*types.Var]bool
	defers  []deferred
	dead    bool
	epochs  []epochMark
	// lazy merge: a key not touched on any merged path resolves to an ite over what it is on each path
	lazy     *lazyMerge
	lazyFrom int // marks in epochs[lazyFrom:] were added after the merge and take precedence
}

type lazyMerge struct {
	guards  []string
	origins []*State
}

type epochMark struct {
	prefix string
	id     int
}

type deferred struct {
	guard string // non-empty: registered only on the paths where this condition holds (after a merge of states)
	recv  Value  // defer x.m(...): the receiver is evaluated when the defer statement runs, not when the call does
	call *ast.CallExpr
	fn   Value
	args []Value
}

func (s *State) clone() *State {
	n := &State{assumes: s.assumes, vars: make(map[*types.Var]Value, len(s.vars)), heap: make(map[string]string, len(s.heap)),
		written: s.written, wvars: s.wvars, dead: s.dead, epochs: s.epochs, nonFresh: s.nonFresh, nfRefs: s.nfRefs, nfWhole: s.nfWhole, lazy: s.lazy, lazyFrom: s.lazyFrom}
	for k, v := range s.vars {
		n.vars[k] = v
	}
	for k, v := range s.heap {
		n.heap[k] = v
	}
	n.defers = append([]deferred(nil), s.defers...)
	return n
}

func (s *State) assume(a string) {
	if a == "true" || a == "" {
		return
	}
	s.assumes = s.assumes.push(a)
}

// ---------------------------------------------------------------------------------------------

type Oblig struct {
	Name    string
	Kind    string
	Func    string
	Tags    []string
	Assumes *cons
	Goal    string
	Pos     token.Position
	Expr    string
	Smoke   bool // expected: NOT unsat
	Before  *cons // call-site probe: the assumptions before the call (a path that was dead already is not the call's fault)
	decls   *Ctx
	lemmaFile string
	// results
	Verdict string
	Solver  string
	Secs    float64
	Output  string
	SMTFile string
	Model   map[string]string
	Agree   int
}

// Ctx is the per-function verification context.
type Ctx struct {
	eng       *Engine
	pkg       *Pkg
	fn        *types.Func
	decl      *ast.FuncDecl
	con       *Contract
	declOrder []string
	decls     map[string]string // name -> sort (or full fun decl)
	obls      []*Oblig
	nfresh    int
	dry       int // >0: no obligations are recorded
	entry     *State
	results   []*types.Var
	occ       map[string]int
	loopOrd   map[ast.Stmt]int
	callOrd   map[*ast.CallExpr]int
	retOrd    map[*ast.ReturnStmt]int
	abstracted []string
	assumptions map[string]bool
	checkPanics bool
	checkOvf    bool
	panicTags   []string
	strlits   map[string]string
	inline    []*inlineFrame
	calleesUsed map[string]bool
	typeIDs     map[string]types.Type
	ifacePreds  map[string]types.Type
	distinctRefs map[string]bool
	curPos      token.Pos
	sorts       map[string]string
	idxVars     map[string]*types.Var
	usedSpec    map[string]bool
	ordDone     map[*ast.FuncDecl]bool
	bindingErrors []string
	nq          int
	pureDepth   int
	inlineStack []*types.Func
	inQuant     int
	byteMems    map[string]bool // A2 symbols holding byte memories: every cell is in [0,255]
	byteArrs    map[string]bool // A1 symbols holding bytes
	frameWrites map[string]bool // heap keys written at refs that are not fresh allocations
	atArgs      map[string]bound  // arg0.. of the call whose at-clauses are being evaluated
	escTypes    map[string]bool  // memory keys of slice element types whose elements have their address taken in this function
	curTags     []string         // property tags of the clause being evaluated (for contract-binding reports)
	loopEntry   map[int]*State   // state in which a loop with clauses was entered (atentry)
	sumFuns     map[string]string // canonical summand -> array-valued function symbol (mapsum / sumvisited)
	freshRefs   map[string]bool
	frameCallee []string
	variantAt   map[int]string
	useIx       bool
	loopHeads   map[int]*State
	branchOrd   map[*ast.BranchStmt]int
	loopNames   map[int]string
	seenAlloc   map[string]bool
	atHit       map[string]bool
	curLoop     int
	loopIdxVar  map[int]*types.Var
	loopWrites  map[int]map[string]bool // heap keys written by each loop (dry run), by loop ordinal
	watchKeys   map[string]bool         // heap keys whose reads are being watched (postconditions over keys a callee hides)
	watchHit    bool
	deferRecv   Value // receiver of the deferred method call being run (evaluated at the defer statement)
	spawned     map[string]bool // callee names started with `go` in this function (for spawnonly clauses)
	lastNfRefs  map[string][]string     // per base key: pre-existing objects the last discovered loop writes, if all are loop-invariant terms
	lastNfVague map[string]bool         // keys / prefixes for which the objects written are not all known loop-invariant terms
	loopHavoc   bool
	lastNonFresh map[string]bool
	allocSeq    map[string]int
	touchedLocks bool
	frameKeys   []string
}

// noteWrite records a write for the function frame and, inside loops, whether it may hit a pre-existing object.
func (c *Ctx) noteWrite(s *State, key, ref string) {
	if !(c.freshRefs[ref] || strings.HasPrefix(ref, "(sub.") && c.freshRefs[innerRef(ref)]) {
		c.frameEffectRef(s, key, ref)
	}
	if s.nonFresh != nil {
		stamp := c.allocSeq[ref]
		if strings.HasPrefix(ref, "(sub.") {
			stamp = c.allocSeq[innerRef(ref)]
		}
		if old, ok := s.nonFresh[key]; !ok || stamp < old {
			s.nonFresh[key] = stamp
		}
		if s.nfRefs != nil {
			if s.nfRefs[key] == nil {
				s.nfRefs[key] = map[string]int{}
			}
			s.nfRefs[key][ref] = stamp
		}
	}
}

// frameWrite records a write to heap key `key` at object `ref` for the frame check.
func (c *Ctx) frameWrite(key, ref string) {
	if c.freshRefs[ref] || strings.HasPrefix(ref, "(sub.") && c.freshRefs[innerRef(ref)] {
		return
	}
	c.frameWrites[key] = true
}

func innerRef(ref string) string {
	for strings.HasPrefix(ref, "(sub.") {
		i := strings.Index(ref, " ")
		if i < 0 {
			return ref
		}
		ref = strings.TrimSuffix(ref[i+1:], ")")
	}
	return ref
}

type inlineFrame struct {
	results []*types.Var
	resVals []Value
	lit     *ast.FuncLit
}

func (c *Ctx) fresh(prefix, sort string) string {
	c.nfresh++
	name := fmt.Sprintf("%s~%d", sanitize(prefix), c.nfresh)
	c.declare(name, sort)
	return name
}

func sanitize(s string) string {
	var b strings.Builder
	for _, r := range s {
		switch {
		case r >= 'a' && r <= 'z', r >= 'A' && r <= 'Z', r >= '0' && r <= '9', r == '_', r == '.', r == '$', r == '~':
			b.WriteRune(r)
		case r == '#':
			b.WriteRune('$')
		default:
			b.WriteRune('_')
		}
	}
	if b.Len() == 0 {
		return "v"
	}
	return b.String()
}

func (c *Ctx) declare(name, sort string) {
	if _, ok := c.decls[name]; ok {
		return
	}
	c.decls[name] = sort
	c.declOrder = append(c.declOrder, name)
}

// declareFun declares an uninterpreted function with n Int args.
func (c *Ctx) declareFun(name string, nargs int, ret string) {
	if _, ok := c.decls[name]; ok {
		return
	}
	args := strings.TrimSpace(strings.Repeat("Int ", nargs))
	c.decls[name] = "FUN (" + args + ") " + ret
	c.declOrder = append(c.declOrder, name)
}

func (c *Ctx) note(a string) {
	if c.assumptions == nil {
		c.assumptions = map[string]bool{}
	}
	c.assumptions[a] = true
}

func (c *Ctx) abstractNote(pos token.Pos, what string) {
	p := c.eng.fset.Position(pos)
	c.abstracted = append(c.abstracted, fmt.Sprintf("%s:%d %s", shortFile(p.Filename), p.Line, what))
}

func shortFile(f string) string {
	return strings.TrimPrefix(f, "/repo/")
}

// oblige records a proof obligation: under s.assumes, goal must hold.
func (c *Ctx) oblige(s *State, kind, exprText string, pos token.Pos, goal string, tags []string) {
	// execution continues past a run-time check or a call only if the checked condition held
	switch {
	case kind == "index", kind == "slice", kind == "nil", kind == "div", kind == "make", kind == "assert-type", kind == "nilmap", kind == "ovf",
		strings.HasPrefix(kind, "pre:"):
		defer s.assume(goal)
	}
	if c.dry > 0 || s.dead {
		return
	}
	if goal == "true" {
		// still count it as trivially discharged obligation? skip: keeps counts about real queries
		return
	}
	// conjunctive postconditions / invariants / assertions are discharged conjunct by conjunct
	if strings.HasPrefix(goal, "(and ") && (strings.HasPrefix(kind, "post") || strings.HasPrefix(kind, "inv-") || strings.HasPrefix(kind, "assert") ||
		strings.HasPrefix(kind, "exit-assert") || strings.HasPrefix(kind, "pre:")) {
		parts := flattenAnd(goal)
		if len(parts) > 1 {
			for i, p := range parts {
				c.oblige1(s, fmt.Sprintf("%s.c%d", kind, i+1), exprText, pos, p, tags)
			}
			return
		}
	}
	c.oblige1(s, kind, exprText, pos, goal, tags)
}

func flattenAnd(goal string) []string {
	if !strings.HasPrefix(goal, "(and ") {
		return []string{goal}
	}
	var out []string
	for _, p := range splitTopSexp(goal[5 : len(goal)-1]) {
		out = append(out, flattenAnd(p)...)
	}
	return out
}

func splitTopSexp(s string) []string {
	var parts []string
	d := 0
	start := -1
	for i := 0; i < len(s); i++ {
		ch := s[i]
		switch {
		case ch == '(':
			if d == 0 && start < 0 {
				start = i
			}
			d++
		case ch == ')':
			d--
			if d == 0 {
				parts = append(parts, s[start:i+1])
				start = -1
			}
		case ch == ' ':
			if d == 0 && start >= 0 {
				parts = append(parts, s[start:i])
				start = -1
			}
		default:
			if d == 0 && start < 0 {
				start = i
			}
		}
	}
	if start >= 0 {
		parts = append(parts, s[start:])
	}
	return parts
}

func (c *Ctx) oblige1(s *State, kind, exprText string, pos token.Pos, goal string, tags []string) {
	if goal == "true" {
		return
	}
	base := fmt.Sprintf("%s/%s(%s)", c.con.Key, kind, truncate(exprText, 64))
	c.occ[base]++
	name := fmt.Sprintf("%s#%d", base, c.occ[base])
	c.obls = append(c.obls, &Oblig{Name: name, Kind: kind, Func: c.con.Key, Tags: tags, Assumes: s.assumes, Goal: goal,
		Pos: c.eng.fset.Position(pos), Expr: exprText, decls: c})
}

// ---------------------------------------------------------------------------------------------
// Types → leaves

func typeKey(t types.Type) string {
	return types.TypeString(t, func(p *types.Package) string { return p.Name() })
}

// leaves returns the leaf paths of a type when stored in the heap (each leaf is an Int).
func leaves(t types.Type) []string {
	switch u := t.Underlying().(type) {
	case *types.Slice, *types.Array:
		return []string{"#ref", "#off", "#len", "#cap"}
	case *types.Struct:
		var out []string
		for i := 0; i < u.NumFields(); i++ {
			f := u.Field(i)
			for _, l := range leaves(f.Type()) {
				out = append(out, "."+f.Name()+l)
			}
		}
		if len(out) == 0 {
			return []string{""}
		}
		return out
	default:
		return []string{""}
	}
}

func isBoolType(t types.Type) bool {
	b, ok := t.Underlying().(*types.Basic)
	return ok && b.Info()&types.IsBoolean != 0
}

func isStringType(t types.Type) bool {
	b, ok := t.Underlying().(*types.Basic)
	return ok && b.Info()&types.IsString != 0
}

// intRange returns (bits, signed, ok) for integer types.
func intRange(t types.Type) (int, bool, bool) {
	b, ok := t.Underlying().(*types.Basic)
	if !ok {
		return 0, false, false
	}
	switch b.Kind() {
	case types.Int8:
		return 8, true, true
	case types.Int16:
		return 16, true, true
	case types.Int32:
		return 32, true, true
	case types.Int64, types.Int:
		return 64, true, true
	case types.Uint8:
		return 8, false, true
	case types.Uint16:
		return 16, false, true
	case types.Uint32:
		return 32, false, true
	case types.Uint64, types.Uint, types.Uintptr:
		return 64, false, true
	case types.UntypedInt, types.UntypedRune:
		return 0, true, false
	}
	return 0, false, false
}

func rangeFact(t types.Type, term string) string {
	if _, isLit := isNumLit(term); isLit {
		return "true"
	}
	bits, signed, ok := intRange(t)
	if !ok {
		return "true"
	}
	if signed {
		h := pow2(bits - 1)
		return and(le("(- "+h+")", term), lt(term, h))
	}
	return and(le("0", term), lt(term, pow2(bits)))
}

// flatten a value of type t into Int leaf terms (order of leaves(t)).
func flatten(v Value, t types.Type) []string {
	switch u := t.Underlying().(type) {
	case *types.Slice, *types.Array:
		sv, ok := v.(SliceV)
		if !ok {
			panic(fmt.Sprintf("flatten: slice type %s got %T", t, v))
		}
		return []string{sv.Ref, sv.Off, sv.Len, sv.Cap}
	case *types.Struct:
		st, ok := v.(StructV)
		if !ok {
			panic(fmt.Sprintf("flatten: struct type %s got %T", t, v))
		}
		var out []string
		for i := 0; i < u.NumFields(); i++ {
			f := u.Field(i)
			fv, ok := st.F[f.Name()]
			if !ok {
				fv = zeroValue(f.Type())
			}
			out = append(out, flatten(fv, f.Type())...)
		}
		if len(out) == 0 {
			return []string{"0"}
		}
		return out
	default:
		switch x := v.(type) {
		case IntV:
			return []string{x.T}
		case BoolV:
			return []string{b2i(x.T)}
		case FuncV:
			return []string{"1"}
		case NoneV:
			return []string{"0"}
		}
		panic(fmt.Sprintf("flatten: type %s got %T", t, v))
	}
}

func unflatten(ts []string, t types.Type) (Value, []string) {
	switch u := t.Underlying().(type) {
	case *types.Slice, *types.Array:
		return SliceV{ts[0], ts[1], ts[2], ts[3], false}, ts[4:]
	case *types.Struct:
		st := StructV{F: map[string]Value{}}
		if u.NumFields() == 0 {
			return st, ts[1:]
		}
		n := 0
		for i := 0; i < u.NumFields(); i++ {
			f := u.Field(i)
			var fv Value
			fv, ts = unflatten(ts, f.Type())
			st.F[f.Name()] = fv
			n++
		}
		return st, ts
	default:
		if isBoolType(t) {
			return BoolV{i2b(ts[0])}, ts[1:]
		}
		return IntV{ts[0]}, ts[1:]
	}
}

func zeroValue(t types.Type) Value {
	switch u := t.Underlying().(type) {
	case *types.Slice, *types.Array:
		return nilSlice
	case *types.Struct:
		st := StructV{F: map[string]Value{}}
		for i := 0; i < u.NumFields(); i++ {
			st.F[u.Field(i).Name()] = zeroValue(u.Field(i).Type())
		}
		return st
	default:
		if isBoolType(t) {
			return BoolV{"false"}
		}
		if isStringType(t) {
			return IntV{"gs.empty"}
		}
		return IntV{"0"}
	}
}

// freshValue creates an unconstrained value of type t (with type range facts assumed in s).
func (c *Ctx) freshValue(s *State, name string, t types.Type) Value {
	switch u := t.Underlying().(type) {
	case *types.Slice, *types.Array:
		sv := SliceV{c.fresh(name+"#ref", sInt), c.fresh(name+"#off", sInt), c.fresh(name+"#len", sInt), c.fresh(name+"#cap", sInt), false}
		s.assume(c.sliceWF(sv))
		return sv
	case *types.Struct:
		st := StructV{F: map[string]Value{}}
		for i := 0; i < u.NumFields(); i++ {
			st.F[u.Field(i).Name()] = c.freshValue(s, name+"."+u.Field(i).Name(), u.Field(i).Type())
		}
		return st
	case *types.Tuple:
		var tv TupleV
		for i := 0; i < u.Len(); i++ {
			tv = append(tv, c.freshValue(s, fmt.Sprintf("%s.%d", name, i), u.At(i).Type()))
		}
		return tv
	default:
		if isBoolType(t) {
			return BoolV{c.fresh(name, sBool)}
		}
		x := c.fresh(name, sInt)
		s.assume(rangeFact(t, x))
		if isStringType(t) {
			c.useStr()
		}
		return IntV{x}
	}
}

const maxLen = "140737488355328" // 2^47

func (c *Ctx) sliceWF(sv SliceV) string {
	return and(le("0", sv.Off), le("0", sv.Len), le(sv.Len, sv.Cap), le(sv.Cap, maxLen), le(sv.Off, maxLen), le("0", sv.Ref),
		implies(eq(sv.Ref, "0"), and(eq(sv.Len, "0"), eq(sv.Cap, "0"))))
}

// typed assumption about a value read from the heap
func (c *Ctx) assumeTyped(s *State, v Value, t types.Type) {
	if c.inQuant > 0 {
		return // terms mention bound variables; byte ranges come from the per-memory axioms
	}
	switch u := t.Underlying().(type) {
	case *types.Slice, *types.Array:
		s.assume(c.sliceWF(v.(SliceV)))
		c.allocFact(s, v.(SliceV).Ref)
	case *types.Struct:
		st := v.(StructV)
		for i := 0; i < u.NumFields(); i++ {
			c.assumeTyped(s, st.F[u.Field(i).Name()], u.Field(i).Type())
		}
	default:
		if iv, ok := v.(IntV); ok {
			s.assume(rangeFact(t, iv.T))
			if isRefLike(t) {
				s.assume(le("0", iv.T))
				c.allocFact(s, iv.T)
			}
		}
	}
}

func isRefLike(t types.Type) bool {
	switch t.Underlying().(type) {
	case *types.Pointer, *types.Interface, *types.Map, *types.Chan, *types.Signature:
		return true
	}
	return false
}

// ---------------------------------------------------------------------------------------------
// Heap

func (c *Ctx) heapGet(s *State, key, sort string) string {
	c.sorts[key] = sort
	if c.watchKeys != nil && c.watchKeys[key] {
		c.watchHit = true
	}
	if t, ok := s.heap[key]; ok {
		return t
	}
	name := c.resolveKey(s, s, key, sort)
	s.heap[key] = name
	return name
}

// resolveKey gives the symbol of key in state st (not materialised there); definitional facts go to `into`.
func (c *Ctx) resolveKey(into, st *State, key, sort string) string {
	if t, ok := st.heap[key]; ok {
		return t
	}
	// havocs after the last merge take precedence
	epoch := -1
	start := 0
	if st.lazy != nil {
		start = st.lazyFrom
	}
	for i := start; i < len(st.epochs); i++ {
		if keyMatches(key, st.epochs[i].prefix) {
			epoch = st.epochs[i].id
		}
	}
	if epoch < 0 && st.lazy != nil {
		names := make([]string, len(st.lazy.origins))
		same := true
		for i, o := range st.lazy.origins {
			names[i] = c.resolveKey(into, o, key, sort)
			if names[i] != names[0] {
				same = false
			}
		}
		if same {
			return names[0]
		}
		t := names[len(names)-1]
		for i := len(names) - 2; i >= 0; i-- {
			t = ite(st.lazy.guards[i], names[i], t)
		}
		n := c.fresh(sanitize(key), sort)
		into.assume(eq(n, t))
		return n
	}
	if epoch < 0 {
		epoch = 0
		for _, m := range st.epochs {
			if keyMatches(key, m.prefix) {
				epoch = m.id
			}
		}
	}
	name := fmt.Sprintf("%s~e%d", sanitize(key), epoch)
	c.declare(name, sort)
	c.noteByteMem(key, name)
	if epoch == 0 && c.entry != nil {
		if _, ok := c.entry.heap[key]; !ok {
			c.entry.heap[key] = name
		}
	}
	return name
}

func (c *Ctx) heapSet(s *State, key, sort, term string) {
	c.sorts[key] = sort
	if len(term) > 60 {
		n := c.fresh(sanitize(key), sort)
		s.assume(eq(n, term))
		term = n
	}
	s.heap[key] = term
	if s.written != nil {
		s.written[key] = true
	}
}

// heapSetQuiet updates engine-internal ghost state (not part of any frame).
func (c *Ctx) heapSetQuiet(s *State, key, sort, term string) {
	c.sorts[key] = sort
	if len(term) > 60 {
		n := c.fresh(sanitize(key), sort)
		s.assume(eq(n, term))
		term = n
	}
	s.heap[key] = term
	if s.written != nil {
		s.written[key] = true
	}
}

func (c *Ctx) heapHavoc(s *State, key, sort string) {
	c.sorts[key] = sort
	s.heap[key] = c.fresh(sanitize(key), sort)
	c.noteByteMem(key, s.heap[key])
	if s.written != nil {
		s.written[key] = true
	}
	if s.nonFresh != nil && !c.loopHavoc {
		s.nonFresh[key] = 0
		if s.nfWhole != nil {
			s.nfWhole[key] = true
		}
	}
}

// keyMatches: a pattern ending in '*' (or '.' or empty) is a raw prefix; otherwise it names one key with all its leaves.
func keyMatches(key, pat string) bool {
	if pat == "" || strings.HasSuffix(pat, "*") || strings.HasSuffix(pat, ".") {
		return strings.HasPrefix(key, strings.TrimSuffix(pat, "*"))
	}
	if !strings.HasPrefix(key, pat) {
		return false
	}
	return len(key) == len(pat) || key[len(pat)] == '#' || key[len(pat)] == '.' || key[len(pat)] == '$'
}

// pendingHavoc havocs every key matching the pattern, including keys not materialised yet.
// monotoneGhosts: ghost sets that only grow (allocated objects, done contexts, closed channels)
var monotoneGhosts = []string{"X.alloc", "X.ctxdone", "X.closed"}

func (c *Ctx) pendingHavoc(s *State, prefix string) {
	for _, mk := range monotoneGhosts {
		if keyMatches(mk, prefix) {
			mk := mk
			oldAl := c.heapGet(s, mk, sA1)
			defer func() {
				newAl := c.heapGet(s, mk, sA1)
				s.assume(fmt.Sprintf("(forall ((r Int)) (! (=> (= (select %s r) 1) (= (select %s r) 1)) :pattern ((select %s r))))", oldAl, newAl, oldAl))
			}()
		}
	}
	c.nfresh++
	if os.Getenv("GOWP_DEBUG") != "" && c.dry == 0 {
		fmt.Fprintf(os.Stderr, "pendingHavoc %q id=%d\n", prefix, c.nfresh)
	}
	s.epochs = append(append([]epochMark(nil), s.epochs...), epochMark{prefix, c.nfresh})
	for k := range s.heap {
		if keyMatches(k, prefix) {
			delete(s.heap, k)
		}
	}
	if s.written != nil {
		s.written["*"+prefix] = true
	}
	if s.nonFresh != nil {
		s.nonFresh[prefix] = 0
		if s.nfWhole != nil {
			s.nfWhole[prefix] = true
		}
	}
}

func (c *Ctx) noteByteMem(key, name string) {
	if key == "M.byte" || key == "M.uint8" {
		c.byteMems[name] = true
	}
}

func structTypeName(t types.Type) string {
	return typeKey(t)
}

// fieldKey returns the heap key prefix for field f of (named) struct type t.
func fieldKey(t types.Type, f string) string {
	return "F." + structTypeName(t) + "." + f
}

// readField reads p.f where p is a ref to a struct of type st.
func (c *Ctx) readField(s *State, ref string, st types.Type, f *types.Var) Value {
	if c.isStructByValueField(f) {
		return c.loadPtr(s, c.subObject(s, ref, st, f), f.Type())
	}
	ls := leaves(f.Type())
	var ts []string
	for _, l := range ls {
		arr := c.heapGet(s, fieldKey(st, f.Name())+l, sA1)
		ts = append(ts, sel(arr, ref))
	}
	v, _ := unflatten(ts, f.Type())
	c.assumeTyped(s, v, f.Type())
	return v
}

func (c *Ctx) writeField(s *State, ref string, st types.Type, f *types.Var, v Value) {
	c.noteWrite(s, fieldKey(st, f.Name()), ref)
	if c.isStructByValueField(f) {
		c.storePtr(s, c.subObject(s, ref, st, f), f.Type(), v)
		return
	}
	ls := leaves(f.Type())
	ts := flatten(v, f.Type())
	for i, l := range ls {
		key := fieldKey(st, f.Name()) + l
		arr := c.heapGet(s, key, sA1)
		c.heapSet(s, key, sA1, store(arr, ref, ts[i]))
	}
}

func memKey(elem types.Type) string { return "M." + typeKey(elem) }

// elemIndex is the position of element idx of a slice with backing-array offset off. For symbolic offsets the sum is
// wrapped in the uninterpreted ix (with defining axiom ix(o,k) = o+k) so that quantified facts about slice elements
// have a trigger without interpreted arithmetic.
func (c *Ctx) elemIndex(off, idx string) string {
	if n, lit := isNumLit(off); lit && n.Sign() == 0 {
		return idx
	}
	return app("ix", off, idx)
}

// readElem reads s[i] (no bounds obligation here).
func (c *Ctx) readElem(s *State, sv SliceV, idx string, elem types.Type) Value {
	c.elemEscapeCheck(s, sv, idx, elem, "read of an element whose address may have been taken")
	ls := leaves(elem)
	var ts []string
	for _, l := range ls {
		m := c.heapGet(s, memKey(elem)+l, sA2)
		ts = append(ts, sel(sel(m, sv.Ref), c.elemIndex(sv.Off, idx)))
	}
	v, _ := unflatten(ts, elem)
	c.assumeTyped(s, v, elem)
	return v
}

func (c *Ctx) writeElem(s *State, sv SliceV, idx string, elem types.Type, v Value) {
	c.elemEscapeCheck(s, sv, idx, elem, "write to an element whose address may have been taken")
	c.noteWrite(s, memKey(elem), sv.Ref)
	ls := leaves(elem)
	ts := flatten(v, elem)
	for i, l := range ls {
		key := memKey(elem) + l
		m := c.heapGet(s, key, sA2)
		c.heapSet(s, key, sA2, store(m, sv.Ref, store(sel(m, sv.Ref), c.elemIndex(sv.Off, idx), ts[i])))
	}
}

// allocSlice makes a fresh backing array; contents given per leaf as an (Array Int Int) term or "" for arbitrary.
func (c *Ctx) allocSlice(s *State, elem types.Type, length, capacity string, zero bool) SliceV {
	ref := c.fresh("new", sInt)
	s.assume(lt("0", ref))
	c.freshRefFacts(s, ref)
	if c.escTypes[memKey(elem)] {
		// no element of a new array has had its address taken
		ek := "X.esc." + memKey(elem)
		esc := c.heapGet(s, ek, sA2)
		c.heapSetQuiet(s, ek, sA2, store(esc, ref, "((as const (Array Int Int)) 0)"))
	}
	for _, l := range leaves(elem) {
		key := memKey(elem) + l
		m := c.heapGet(s, key, sA2)
		var content string
		if zero {
			z := "0"
			if isStringType(elem) {
				z = "gs.empty"
				c.useStr()
			}
			content = "((as const (Array Int Int)) " + z + ")"
		} else {
			content = c.fresh("arr", sA1)
			if key == "M.byte" || key == "M.uint8" {
				c.byteArrs[content] = true
			}
		}
		c.heapSet(s, key, sA2, store(m, ref, content))
	}
	return SliceV{ref, "0", length, capacity, false}
}

// allocFact: every reference read from the state denotes nil or an already allocated object (ghost set X.alloc).
func (c *Ctx) allocFact(s *State, ref string) {
	if _, lit := isNumLit(ref); lit {
		return
	}
	if c.seenAlloc == nil {
		c.seenAlloc = map[string]bool{}
	}
	al := c.heapGet(s, "X.alloc", sA1)
	key := al + "|" + ref
	if c.seenAlloc[key] && false {
		return
	}
	s.assume(or(eq(ref, "0"), eq(sel(al, ref), "1")))
}

// freshRefFacts: a freshly allocated ref was not allocated before (hence differs from every reference read so far).
func (c *Ctx) freshRefFacts(s *State, ref string) {
	c.freshRefs[ref] = true
	c.nfresh++
	c.allocSeq[ref] = c.nfresh
	al := c.heapGet(s, "X.alloc", sA1)
	s.assume(eq(sel(al, ref), "0"))
	c.heapSetQuiet(s, "X.alloc", sA1, store(al, ref, "1"))
	if c.entry == nil {
		return
	}
	// distinct from parameters' refs at entry (allocation is fresh)
	var names []string
	for v, val := range c.entry.vars {
		_ = v
		switch x := val.(type) {
		case SliceV:
			names = append(names, x.Ref)
		case IntV:
			if isRefLike(v.Type()) {
				names = append(names, x.T)
			}
		}
	}
	sort.Strings(names)
	for _, n := range names {
		s.assume(not(eq(ref, n)))
	}
}

func (c *Ctx) useStr() {
	c.declareFun("gs.len", 1, sInt)
	c.declareFun("gs.at", 2, sInt)
	c.declare("gs.empty", sInt)
}
