(declare-const x Int) (assert (and (<= 0 x) (< x 4294967296)))
(assert (not (= x (+ (* 16777216 (mod (div x 16777216) 256)) (* 65536 (mod (div x 65536) 256)) (* 256 (mod (div x 256) 256)) (mod x 256)))))
(check-sat)
