; the CURRENT code: inFlightUp always arms. From net = -1 (response handled before the sender got here) up gives net' = 0, armed.
(declare-const net Int) (declare-const armed Bool)
(assert (and (=> (<= net 0) (not armed)) (=> (> net 0) armed)))
(define-fun up_net () Int (+ net 1))
(define-fun up_armed () Bool true)
(assert (not (=> (<= up_net 0) (not up_armed))))
(check-sat)
