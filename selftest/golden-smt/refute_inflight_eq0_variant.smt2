; first draft of the F12 repair: inFlightUp skips arming only when the counter is exactly 0.
; Invariant I (net <= 0 ==> not armed) is NOT preserved: from net = -2 (two responses handled early) the first up arms.
(declare-const net Int) (declare-const armed Bool)
(assert (and (=> (<= net 0) (not armed)) (=> (> net 0) armed)))
(define-fun up_net () Int (+ net 1))
(define-fun up_armed () Bool (ite (= up_net 0) armed true))
(assert (not (=> (<= up_net 0) (not up_armed))))
(check-sat)
