#!/bin/sh
# Golden SMT suite of the design round: every file is raced on the three solvers; a file passes when
# its expectation (expect.tsv, by prefix) is met:  unsat = some solver proves it;  sat = some solver finds a model;
# not-unsat = no solver proves it. Exit 0 iff all pass.  Usage: ./run.sh [timeout_seconds]
cd "$(dirname "$0")"; T=${1:-20}; bad=0
for f in *.smt2; do
  case $f in lemma_*|vc_*) want=unsat;; refute_*) want=sat;; *) want=not-unsat;; esac
  [ "$want" = not-unsat ] && TT=3 || TT=$T
  r1=$(timeout $((TT+2)) z3 -T:$TT "$f" 2>&1 | head -1); r2=$(timeout $((TT+2)) z3-new -T:$TT "$f" 2>&1 | head -1); r3=$(timeout $((TT+2)) cvc5 --tlimit=$((TT*1000)) -q "$f" 2>&1 | head -1)
  all="$r1/$r2/$r3"
  case "$all" in *"(error"*) echo "TOOL-ERROR $f $all"; bad=1; continue;; esac
  ok=0
  case $want in
    unsat) case "$all" in *unsat*) ok=1;; esac;;
    sat)   case "/$all/" in */sat/*) ok=1;; esac;;
    not-unsat) case "$all" in *unsat*) ok=0;; *) ok=1;; esac;;
  esac
  [ $ok = 1 ] && echo "ok    $want  $f  [$all]" || { echo "FAIL  $want  $f  [$all]"; bad=1; }
done
exit $bad
