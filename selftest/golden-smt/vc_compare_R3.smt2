(define-sort Bytes () (Array Int Int))
(declare-fun lcp (Bytes Int Int Bytes Int Int) Int)
(assert (forall ((a Bytes) (alo Int) (ahi Int) (b Bytes) (blo Int) (bhi Int))
  (! (let ((p (lcp a alo ahi b blo bhi)))
     (=> (and (<= alo ahi) (<= blo bhi))
      (and (<= 0 p) (<= (+ alo p) ahi) (<= (+ blo p) bhi)
       (forall ((j Int)) (! (=> (and (<= alo j) (< j (+ alo p))) (= (select a j) (select b (+ (- j alo) blo)))) :pattern ((select a j))))
       (forall ((j Int)) (! (=> (and (<= blo j) (< j (+ blo p))) (= (select b j) (select a (+ (- j blo) alo)))) :pattern ((select b j))))
       (=> (and (< (+ alo p) ahi) (< (+ blo p) bhi)) (not (= (select a (+ alo p)) (select b (+ blo p))))))))
   :pattern ((lcp a alo ahi b blo bhi)))))
(define-fun lexlt ((a Bytes) (alo Int) (ahi Int) (b Bytes) (blo Int) (bhi Int)) Bool
  (let ((p (lcp a alo ahi b blo bhi)))
   (or (and (= (+ alo p) ahi) (< (+ blo p) bhi))
       (and (< (+ alo p) ahi) (< (+ blo p) bhi) (< (select a (+ alo p)) (select b (+ blo p)))))))
(define-fun lexeq ((a Bytes) (alo Int) (ahi Int) (b Bytes) (blo Int) (bhi Int)) Bool
  (let ((p (lcp a alo ahi b blo bhi))) (and (= (+ alo p) ahi) (= (+ blo p) bhi))))

(define-fun wf ((a Bytes) (la Int) (fa Int) (ca Int)) Bool
  (and (<= 0 fa) (< fa ca) (< ca la) (= (select a fa) 44) (= (select a ca) 44)
       (forall ((k Int)) (=> (and (<= 0 k) (< k fa)) (not (= (select a k) 44))))
       (forall ((k Int)) (=> (and (< ca k) (< k la)) (not (= (select a k) 44))))))
(define-fun cmp3lt ((a Bytes) (la Int) (fa Int) (ca Int) (b Bytes) (lb Int) (fb Int) (cb Int)) Bool
  (or (lexlt a 0 fa b 0 fb)
      (and (lexeq a 0 fa b 0 fb)
           (or (lexlt a (+ fa 1) ca b (+ fb 1) cb)
               (and (lexeq a (+ fa 1) ca b (+ fb 1) cb)
                    (lexlt a (+ ca 1) la b (+ cb 1) lb))))))
(define-fun cmp3eq ((a Bytes) (la Int) (fa Int) (ca Int) (b Bytes) (lb Int) (fb Int) (cb Int)) Bool
  (and (lexeq a 0 fa b 0 fb) (lexeq a (+ fa 1) ca b (+ fb 1) cb) (lexeq a (+ ca 1) la b (+ cb 1) lb)))

(declare-const a Bytes) (declare-const b Bytes)
(declare-const la Int) (declare-const lb Int) (declare-const fa Int) (declare-const ca Int) (declare-const fb Int) (declare-const cb Int)
(assert (forall ((k Int)) (and (<= 0 (select a k)) (< (select a k) 256))))
(assert (forall ((k Int)) (and (<= 0 (select b k)) (< (select b k) 256))))
(assert (wf a la fa ca)) (assert (wf b lb fb cb))

(declare-const length Int) (assert (= length (ite (< la lb) la lb)))
(declare-const i Int)
(assert (and (<= 0 i) (< i length)))
(assert (forall ((k Int)) (=> (and (<= 0 k) (< k i)) (and (= (select a k) (select b k)) (not (= (select a k) 44))))))
(assert (not (= (select a i) (select b i))))

(assert (not (= (select a i) 44))) (assert (not (= (select b i) 44)))
(declare-const r Int) (assert (= r (- (select a i) (select b i))))
(assert (not (and (=> (< r 0) (cmp3lt a la fa ca b lb fb cb)) (=> (> r 0) (cmp3lt b lb fb cb a la fa ca)) (not (= r 0)))))
(check-sat)
