; C18 after patch 0016. Ghost net = (#inFlightUp - #inFlightDown) as a signed number; the code's uint32 counter is net mod 2^32.
; I: net <= 0 ==> not armed      J: net > 0 ==> armed      — both must be preserved by BOTH operations from ANY state
; satisfying them (no assumption about which goroutine runs when).
(declare-const net Int) (declare-const armed Bool)
(assert (and (=> (<= net 0) (not armed)) (=> (> net 0) armed)))
; inFlightUp (signed reading): net' = net+1; if net' <= 0 skip else arm
(define-fun up_net () Int (+ net 1))
(define-fun up_armed () Bool (ite (<= up_net 0) armed true))
; inFlightDown: net' = net-1; if net' == 0 clear
(define-fun dn_net () Int (- net 1))
(define-fun dn_armed () Bool (ite (= dn_net 0) false armed))
(assert (not (and (=> (<= up_net 0) (not up_armed)) (=> (> up_net 0) up_armed)
                  (=> (<= dn_net 0) (not dn_armed)) (=> (> dn_net 0) dn_armed))))
(check-sat)
