module micro

go 1.23
