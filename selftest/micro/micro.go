// Package micro is the regression corpus for gowp's model of Go (DESIGN.md 2.3 / Appendix D.3):
// one tiny function per construct, each with a contract in the //@ syntax of DESIGN.md 2.2 and an
// EXPECT line giving the verdict gowp must reach.
//
//	EXPECT verified                      every obligation discharges
//	EXPECT fail <obligation> witness ... the named obligation is refuted; `witness` is a concrete input
//	                                     that micro_test.go runs against the real function to show that
//	                                     the failure is real Go behaviour, not a modelling artefact
//
// Contract blocks are deliberately separated from the declarations by a blank line: gofmt rewrites
// `//@` to `// @` inside doc comments (the contract parser accepts both spellings anyway).
//
// Nothing here is framework code: it is data, compiled and executed only by its own test.
package micro

import (
	"encoding/binary"
	"errors"
)

// ---------------------------------------------------------------- slices: len vs cap

//@ func ResliceWithinCap(b []byte) (r []byte)
//@   requires len(b) == 4 && cap(b) >= 8
//@   ensures  len(r) == 4
//@   panics never
// EXPECT verified          -- b[4:8] is legal when cap >= 8 even though len == 4

func ResliceWithinCap(b []byte) []byte { return b[4:8] }

//@ func ResliceBeyondCap(b []byte) (r []byte)
//@   requires len(b) == 4
//@   panics never
// EXPECT fail slice(b[4:8]) witness len=4 cap=4

func ResliceBeyondCap(b []byte) []byte { return b[4:8] }

//@ func SliceFrom(b []byte, n int) (r []byte)
//@   requires 0 <= n
//@   panics never
// EXPECT fail slice(b[n:]) witness len=3 cap=10 n=5   -- low bound is checked against len, not cap

func SliceFrom(b []byte, n int) []byte { return b[n:] }

//@ func SliceTo(b []byte, n int) (r []byte)
//@   requires 0 <= n && n <= cap(b)
//@   ensures  len(r) == n
//@   panics never
// EXPECT verified          -- high bound is checked against cap

func SliceTo(b []byte, n int) []byte { return b[:n] }

//@ func IndexLen(b []byte, i int) (r byte)
//@   requires 0 <= i && i < cap(b)
//@   panics never
// EXPECT fail index(b[i]) witness len=2 cap=8 i=5      -- indexing is checked against len

func IndexLen(b []byte, i int) byte { return b[i] }

// ---------------------------------------------------------------- unsigned wrap-around

//@ func WrapSub(total, part uint32) (r uint32)
//@   ensures r <= total
// EXPECT fail post#1 witness total=3 part=5             -- 3-5 wraps to 4294967294

func WrapSub(total, part uint32) uint32 { return total - part }

//@ func WrapSubGuarded(total, part uint32) (r uint32, ok bool)
//@   ensures ok ==> r <= total && r == total - part
// EXPECT verified

func WrapSubGuarded(total, part uint32) (uint32, bool) {
	if part > total {
		return 0, false
	}
	return total - part, true
}

//@ func SumCheck32(a, b, want uint32) (ok bool)
//@   ensures ok ==> int(a) + int(b) == int(want)        // mathematical sum
// EXPECT fail post#1 witness a=4294967295 b=2 want=1

func SumCheck32(a, b, want uint32) bool { return a+b == want }

//@ func SumCheck64(a, b, want uint32) (ok bool)
//@   ensures ok == (int(a) + int(b) == int(want))
// EXPECT verified

func SumCheck64(a, b, want uint32) bool { return uint64(a)+uint64(b) == uint64(want) }

//@ func Narrow16(n int) (r uint16)
//@   requires 0 <= n
//@   ensures int(r) == n
// EXPECT fail post#1 witness n=65536

func Narrow16(n int) uint16 { return uint16(n) }

//@ func NegToU32(n int32) (r uint32)
//@   ensures n >= 0 ==> int(r) == int(n)
//@   ensures n <  0 ==> int(r) == int(n) + 4294967296
// EXPECT verified

func NegToU32(n int32) uint32 { return uint32(n) }

// ---------------------------------------------------------------- big-endian helpers

//@ func ReadLen(b []byte) (n uint32, err error)
//@   panics never
//@   ensures err == nil ==> n == be32(b, 0)
// EXPECT verified

func ReadLen(b []byte) (uint32, error) {
	if len(b) < 4 {
		return 0, errors.New("short")
	}
	return binary.BigEndian.Uint32(b), nil
}

//@ func ReadLenUnchecked(b []byte) (n uint32)
//@   panics never
// EXPECT fail pre:binary.BigEndian.Uint32 witness len=3 cap=3

func ReadLenUnchecked(b []byte) uint32 { return binary.BigEndian.Uint32(b) }

//@ func PutThenGet(v uint32) (r uint32)
//@   ensures r == v
// EXPECT verified          -- needs lemma put-be through the PutUint32 contract

func PutThenGet(v uint32) uint32 {
	b := make([]byte, 8)
	binary.BigEndian.PutUint32(b[2:], v)
	b[0], b[7] = 1, 2 // frame: writes outside [2,6) must not disturb the value
	return binary.BigEndian.Uint32(b[2:6])
}

// ---------------------------------------------------------------- append / copy

//@ func AppendTwo(s []byte, x, y byte) (r []byte)
//@   ensures len(r) == len(s) + 2 && r[len(s)] == x && r[len(s)+1] == y
//@   ensures forall(k, 0 <= k && k < len(s), r[k] == s[k])
// EXPECT verified

func AppendTwo(s []byte, x, y byte) []byte {
	s = append(s, x)
	s = append(s, y)
	return s
}

//@ func CopyShort(dst, src []byte) (n int)
//@   ensures n == len(src)
// EXPECT fail post#1 witness lendst=1 lensrc=3          -- copy returns min(len(dst), len(src))

func CopyShort(dst, src []byte) int { return copy(dst, src) }

//@ func WriteThrough(b []byte) (r byte)
//@   requires len(b) >= 4
//@   ensures r == 7
// EXPECT verified          -- a write through a sub-slice is visible in the parent

func WriteThrough(b []byte) byte {
	t := b[2:4]
	t[1] = 7
	return b[3]
}

// ---------------------------------------------------------------- loops

//@ func CountCommas(b []byte) (n int)
//@   ensures 0 <= n && n <= len(b)
//@   panics never
//@   loop 1 invariant 0 <= n && n <= i
// EXPECT verified          -- `0 <= i <= len(b)` of the range loop is inferred

func CountCommas(b []byte) int {
	n := 0
	for i := range b {
		if b[i] == ',' {
			n++
		}
	}
	return n
}

//@ func LastComma(b []byte) (r int)
//@   ensures r == -1 || (0 <= r && r < len(b) && b[r] == ',')
//@   ensures forall(k, r < k && k < len(b), b[k] != ',')
//@   loop 1 invariant -1 <= i && i < len(b) && forall(k, i < k && k < len(b), b[k] != ',')
//@   loop 1 decreases i + 1
// EXPECT verified

func LastComma(b []byte) int {
	for i := len(b) - 1; i >= 0; i-- {
		if b[i] == ',' {
			return i
		}
	}
	return -1
}

//@ func LastCommaOffByOne(b []byte) (r int)
//@   ensures forall(k, r < k && k < len(b), b[k] != ',')
//@   loop 1 invariant 0 <= i && i < len(b) && forall(k, i < k && k < len(b), b[k] != ',')
// EXPECT fail post#1 witness b=","                      -- never looks at b[0]

func LastCommaOffByOne(b []byte) int {
	for i := len(b) - 1; i > 0; i-- {
		if b[i] == ',' {
			return i
		}
	}
	return -1
}

//@ func SpinOnZero(b []byte) (n int)
//@   loop 1 decreases len(b) - i
// EXPECT fail dec(loop 1) witness b="\x00"              -- i does not advance on a zero byte

func SpinOnZero(b []byte) int {
	n, i := 0, 0
	for i < len(b) {
		if b[i] != 0 {
			i++
		}
		n++
		if n > 1000 { // keeps the concrete test finite; gowp sees the variant fail
			break
		}
	}
	return n
}

// ---------------------------------------------------------------- short-circuit guards, nil

type hdr struct {
	Class *string
	N     *uint32
}

//@ func Guarded(h *hdr) (r int)
//@   panics never
// EXPECT verified

func Guarded(h *hdr) int {
	if h != nil && h.Class != nil && len(*h.Class) > 0 {
		return 1
	}
	return 0
}

//@ func Unguarded(h *hdr) (r string)
//@   requires h != nil
//@   panics never
// EXPECT fail nil(*h.Class) witness Class=nil

func Unguarded(h *hdr) string { return *h.Class }

// ---------------------------------------------------------------- defer, named results, early exits

//@ func Deferred(fail bool) (n int, err error)
//@   ghost delivered int
//@   ensures delivered == old(delivered) + 1              -- exactly once on every path
// EXPECT verified

func Deferred(fail bool) (n int, err error) {
	defer func() { deliver(n, err) }()
	if fail {
		err = errors.New("x")
		return
	}
	n = 1
	return
}

//@ func DeliverTwice(fail bool) (err error)
//@   ghost delivered int
//@   ensures delivered <= old(delivered) + 1
// EXPECT fail post#1 witness fail=true

func DeliverTwice(fail bool) (err error) {
	defer func() { deliver(0, err) }()
	if fail {
		err = errors.New("x")
		deliver(0, err)
	}
	return
}

// Delivered counts calls of deliver (the ghost `delivered` made observable for the concrete test).

var Delivered int

//@ func deliver(n int, err error)
//@   modifies delivered
//@   ensures delivered == old(delivered) + 1

func deliver(n int, err error) { Delivered++ }

// ---------------------------------------------------------------- select as nondeterministic choice

//@ func WaitOrCancel(res chan int, done chan struct{}) (v int, ok bool)
//@   ensures ok ==> owner(v) == res
// EXPECT verified

func WaitOrCancel(res chan int, done chan struct{}) (int, bool) {
	select {
	case v := <-res:
		return v, true
	case <-done:
		return 0, false
	}
}

//@ func FlagVsDrain(res chan error, done chan struct{}) (got error, ok bool)
//@   ensures ok == (got == nil)
// EXPECT fail post#1 witness choice=done,then=res(nil)   -- the F8 shape: cancellation chosen, value ready anyway

func FlagVsDrain(res chan error, done chan struct{}) (got error, ok bool) {
	ok = true
	select {
	case got = <-res:
		if got != nil {
			ok = false
		}
		return
	case <-done:
		ok = false
	}
	select {
	case got = <-res:
	default:
		got = errors.New("cancelled")
	}
	return
}

// ---------------------------------------------------------------- map range (arbitrary order)

//@ func SumLens(m map[string][]byte) (n int)
//@   ensures n == sumOver(m, len)
//@   loop 1 invariant n == sumOver(visited, len)
// EXPECT verified

func SumLens(m map[string][]byte) int {
	n := 0
	for _, v := range m {
		n += len(v)
	}
	return n
}

//@ func TwoPassMismatch(m map[string]map[string]bool, del bool) (a, b int)
//@   ensures a == b
// EXPECT fail post#1 witness m={"cf":nil} del=false       -- the F15 shape: two passes with different rules

func TwoPassMismatch(m map[string]map[string]bool, del bool) (a, b int) {
	one := map[string]bool{"": true}
	for _, v := range m {
		if v == nil {
			v = one
		}
		a += len(v)
	}
	for _, v := range m {
		if del && v == nil {
			v = one
		}
		b += len(v)
	}
	return
}

// ---------------------------------------------------------------- type switch on error classes

type retryable struct{ error }
type fatal struct{ error }

//@ func Classify(err error) (retry bool)
//@   ensures retry == typeis(err, "micro.retryable")
// EXPECT verified

func Classify(err error) bool {
	switch err.(type) {
	case retryable:
		return true
	case fatal:
		return false
	}
	return false
}

// ---------------------------------------------------------------- positional vs mapped result slots

//@ func FillPositional(batch []int, res []error, idx map[int]int)
//@   requires forall(i, 0 <= i && i < len(batch), 0 <= idx[batch[i]] && idx[batch[i]] < len(res))
//@   ensures  forall(j, 0 <= j && j < len(res), !exists(i, 0 <= i && i < len(batch), idx[batch[i]] == j) ==> res[j] == old(res[j]))
// EXPECT fail post#1 witness batch=[7] idx={7:1} res=[nil,nil]   -- the F7 shape: writes res[0], must write res[1]

func FillPositional(batch []int, res []error, idx map[int]int) {
	for i := range batch {
		res[i] = errors.New("lookup")
	}
}

//@ func FillMapped(batch []int, res []error, idx map[int]int)
//@   requires forall(i, 0 <= i && i < len(batch), 0 <= idx[batch[i]] && idx[batch[i]] < len(res))
//@   ensures  forall(j, 0 <= j && j < len(res), !exists(i, 0 <= i && i < len(batch), idx[batch[i]] == j) ==> res[j] == old(res[j]))
//@   loop 1 invariant forall(j, 0 <= j && j < len(res), !exists(k, 0 <= k && k < i, idx[batch[k]] == j) ==> res[j] == old(res[j]))
// EXPECT verified

func FillMapped(batch []int, res []error, idx map[int]int) {
	for _, e := range batch {
		res[idx[e]] = errors.New("lookup")
	}
}
