package micro

import (
	"errors"
	"testing"
)

func panics(f func()) (p bool) {
	defer func() { p = recover() != nil }()
	f()
	return
}

func mk(l, c int) []byte { return make([]byte, l, c) }

// Every `EXPECT fail … witness …` is executed here: the witness must really misbehave in Go.
// Every `EXPECT verified` about a Go subtlety gets a concrete confirmation too.
func TestWitnesses(t *testing.T) {
	check := func(name string, bad bool) {
		t.Helper()
		if !bad {
			t.Errorf("%s: the witness does not show the failure", name)
		}
	}
	if panics(func() { ResliceWithinCap(mk(4, 8)) }) {
		t.Errorf("ResliceWithinCap must not panic")
	}
	check("ResliceBeyondCap", panics(func() { ResliceBeyondCap(mk(4, 4)) }))
	check("SliceFrom", panics(func() { SliceFrom(mk(3, 10), 5) }))
	if panics(func() { SliceTo(mk(3, 10), 9) }) {
		t.Errorf("SliceTo within cap must not panic")
	}
	check("IndexLen", panics(func() { IndexLen(mk(2, 8), 5) }))
	check("WrapSub", WrapSub(3, 5) > 3)
	check("SumCheck32", SumCheck32(4294967295, 2, 1))
	if SumCheck64(4294967295, 2, 1) {
		t.Errorf("SumCheck64 must reject the wrapped sum")
	}
	check("Narrow16", int(Narrow16(65536)) != 65536)
	if NegToU32(-1) != 4294967295 {
		t.Errorf("NegToU32")
	}
	check("ReadLenUnchecked", panics(func() { ReadLenUnchecked(mk(3, 3)) }))
	if PutThenGet(0xdeadbeef) != 0xdeadbeef {
		t.Errorf("PutThenGet")
	}
	check("CopyShort", CopyShort(mk(1, 1), mk(3, 3)) != 3)
	if WriteThrough(mk(4, 4)) != 7 {
		t.Errorf("WriteThrough")
	}
	check("LastCommaOffByOne", LastCommaOffByOne([]byte(",")) == -1) // b[0] is a comma after r == -1
	check("SpinOnZero", SpinOnZero([]byte{0}) > 1000)
	check("Unguarded", panics(func() { Unguarded(&hdr{}) }))
	Delivered = 0
	Deferred(true)
	Deferred(false)
	if Delivered != 2 {
		t.Errorf("Deferred must deliver exactly once per call, got %d", Delivered)
	}
	Delivered = 0
	DeliverTwice(true)
	check("DeliverTwice", Delivered == 2)
	// FlagVsDrain: cancellation chosen while a nil result is ready -> (nil, false)
	hit := false
	for i := 0; i < 200 && !hit; i++ {
		res, done := make(chan error, 1), make(chan struct{})
		res <- nil
		close(done)
		got, ok := FlagVsDrain(res, done)
		hit = got == nil && !ok
	}
	check("FlagVsDrain", hit)
	a, b := TwoPassMismatch(map[string]map[string]bool{"cf": nil}, false)
	check("TwoPassMismatch", a != b)
	if !Classify(retryable{errors.New("x")}) || Classify(fatal{errors.New("x")}) || Classify(errors.New("x")) {
		t.Errorf("Classify")
	}
	res := []error{nil, nil}
	FillPositional([]int{7}, res, map[int]int{7: 1})
	check("FillPositional", res[0] != nil && res[1] == nil)
	res = []error{nil, nil}
	FillMapped([]int{7}, res, map[int]int{7: 1})
	if res[0] != nil || res[1] == nil {
		t.Errorf("FillMapped")
	}
}
