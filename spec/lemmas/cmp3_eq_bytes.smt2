; component-wise equality of well-formed names is equality of the byte strings
(declare-const a Bytes) (declare-const b Bytes)
(declare-const alo Int) (declare-const ahi Int) (declare-const blo Int) (declare-const bhi Int) (declare-const k Int)
(assert (and (<= alo ahi) (<= blo bhi))) (assert (wfName a alo ahi)) (assert (wfName b blo bhi))
(assert (cmp3eq a alo ahi b blo bhi))
(assert (not (and (= (- ahi alo) (- bhi blo)) (=> (and (<= alo k) (< k ahi)) (= (select a k) (select b (+ (- k alo) blo)))))))
