; a table's first region (empty start key) sorts before every other region of the table, and after every region of a
; lexicographically smaller table name, also when one table name is a prefix of the other
(declare-const a Bytes) (declare-const b Bytes)
(declare-const alo Int) (declare-const ahi Int) (declare-const blo Int) (declare-const bhi Int)
(assert (and (<= alo ahi) (<= blo bhi))) (assert (wfName a alo ahi)) (assert (wfName b blo bhi))
(define-fun fa () Int (+ alo (fcomma a alo ahi))) (define-fun ca () Int (+ alo (lcomma a alo ahi)))
(define-fun fb () Int (+ blo (fcomma b blo bhi))) (define-fun cb () Int (+ blo (lcomma b blo bhi)))
; a has an empty start key
(assert (= ca (+ fa 1)))
(assert (not (and
  ; same table, b has a non-empty start key  ==> a < b
  (=> (and (lexeq a alo fa b blo fb) (> cb (+ fb 1))) (cmp3lt a alo ahi b blo bhi))
  ; b's table is smaller (possibly a proper prefix of a's table) ==> b < a
  (=> (lexlt b blo fb a alo fa) (cmp3lt b blo bhi a alo ahi)))))
