(declare-const a Bytes) (declare-const lo Int) (declare-const hi Int)
(assert (<= lo hi)) (assert (wfName a lo hi))
(assert (cmp3lt a lo hi a lo hi))
