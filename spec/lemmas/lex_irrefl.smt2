; lexlt is irreflexive
(declare-const a Bytes) (declare-const lo Int) (declare-const hi Int)
(assert (<= lo hi))
(assert (not (not (lexlt a lo hi a lo hi))))
