; lexlt is transitive
(declare-const a Bytes) (declare-const b Bytes) (declare-const c Bytes)
(declare-const alo Int) (declare-const ahi Int) (declare-const blo Int) (declare-const bhi Int) (declare-const clo Int) (declare-const chi Int)
(assert (and (<= alo ahi) (<= blo bhi) (<= clo chi)))
(assert (lexlt a alo ahi b blo bhi))
(assert (lexlt b blo bhi c clo chi))
(assert (not (lexlt a alo ahi c clo chi)))
