; exactly one of a<b, a==b, b<a
(declare-const a Bytes) (declare-const b Bytes)
(declare-const alo Int) (declare-const ahi Int) (declare-const blo Int) (declare-const bhi Int)
(assert (and (<= alo ahi) (<= blo bhi)))
(define-fun lt1 () Bool (lexlt a alo ahi b blo bhi))
(define-fun eq1 () Bool (lexeq a alo ahi b blo bhi))
(define-fun gt1 () Bool (lexlt b blo bhi a alo ahi))
(assert (not (and (or lt1 eq1 gt1) (not (and lt1 eq1)) (not (and lt1 gt1)) (not (and eq1 gt1)))))
