; lexeq is equality of length and contents
(declare-const a Bytes) (declare-const b Bytes)
(declare-const alo Int) (declare-const ahi Int) (declare-const blo Int) (declare-const bhi Int) (declare-const k Int)
(assert (and (<= alo ahi) (<= blo bhi)))
(assert (lexeq a alo ahi b blo bhi))
(assert (not (and (= (- ahi alo) (- bhi blo)) (=> (and (<= alo k) (< k ahi)) (= (select a k) (select b (+ (- k alo) blo)))))))
