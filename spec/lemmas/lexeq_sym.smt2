; lexeq is symmetric and lexeq-substitutive on the left of lexlt
(declare-const a Bytes) (declare-const b Bytes) (declare-const c Bytes)
(declare-const alo Int) (declare-const ahi Int) (declare-const blo Int) (declare-const bhi Int) (declare-const clo Int) (declare-const chi Int)
(assert (and (<= alo ahi) (<= blo bhi) (<= clo chi)))
(assert (lexeq a alo ahi b blo bhi))
(assert (not (and (lexeq b blo bhi a alo ahi)
                  (= (lexlt a alo ahi c clo chi) (lexlt b blo bhi c clo chi))
                  (= (lexlt c clo chi a alo ahi) (lexlt c clo chi b blo bhi)))))
