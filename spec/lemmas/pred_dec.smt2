; reversed scan, next start row s = pred(r) for a region start key r whose last byte is > 0 (predKey of scanner.update):
; s < r, and every key k with s < k < r extends s - i.e. starts with r[:n-1], r[n-1]-1 and eight 0xff. Row keys without a
; run of eight 0xff bytes (the property's quantifier) therefore do not lie strictly between s and r: no gap.
(declare-const r Bytes) (declare-const n Int) (assert (>= n 1))
(declare-const k Bytes) (declare-const lk Int) (assert (>= lk 0))
(declare-const s Bytes) (declare-const ls Int)
(assert (forall ((j Int)) (and (<= 0 (select r j)) (< (select r j) 256))))
(assert (forall ((j Int)) (and (<= 0 (select k j)) (< (select k j) 256))))
(assert (forall ((j Int)) (and (<= 0 (select s j)) (< (select s j) 256))))
(assert (> (select r (- n 1)) 0)) (assert (= ls (+ n 8)))
(assert (forall ((j Int)) (=> (and (<= 0 j) (< j (- n 1))) (= (select s j) (select r j)))))
(assert (= (select s (- n 1)) (- (select r (- n 1)) 1)))
(assert (forall ((j Int)) (=> (and (<= n j) (< j (+ n 8))) (= (select s j) 255))))
(assert (not (and (lexlt s 0 ls r 0 n)
  (=> (and (lexlt k 0 lk r 0 n) (lexlt s 0 ls k 0 lk))
      (and (> lk ls) (forall ((j Int)) (=> (and (<= 0 j) (< j ls)) (= (select k j) (select s j)))))))))
