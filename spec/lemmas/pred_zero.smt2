; reversed scan, region start key r ending in 0x00: s = r without its last byte is the immediate predecessor of r:
; s < r and no key lies strictly between them.
(declare-const r Bytes) (declare-const n Int) (assert (>= n 1))
(declare-const k Bytes) (declare-const lk Int) (assert (>= lk 0))
(assert (forall ((j Int)) (and (<= 0 (select r j)) (< (select r j) 256))))
(assert (forall ((j Int)) (and (<= 0 (select k j)) (< (select k j) 256))))
(assert (= (select r (- n 1)) 0))
(assert (not (and (lexlt r 0 (- n 1) r 0 n)
  (not (and (lexlt r 0 (- n 1) k 0 lk) (lexlt k 0 lk r 0 n))))))
