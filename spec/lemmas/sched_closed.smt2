; onSched is exactly the range of sched, and it is closed under the growth formula
(declare-const b Int) (declare-const n Int)
(assert (not (and (=> (onSched b) (onSched (schedNext b)))
                  (=> (>= n 0) (onSched (sched n)))
                  (=> (onSched b) (or (= b (sched 0)) (= b (sched 1)) (= b (sched 2)) (= b (sched 3)) (= b (sched 4)) (= b (sched 5)) (= b (sched 6)) (= b (sched 7))
                                      (= b (sched 8)) (= b (sched 9)) (= b (sched 10)) (= b (sched 11)) (= b (sched 12)) (= b (sched 13)) (= b (sched 14)))))))
