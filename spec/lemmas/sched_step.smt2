; the growth formula of sleepAndIncreaseBackoff walks the schedule: next(sched(n)) == sched(n+1), and the schedule is the
; one of the statement (16 ms ... 8.192 s doubling, 13.192 s ... 33.192 s by +5 s, then constant)
(declare-const n Int)
(assert (>= n 0))
(assert (not (and (= (schedNext (sched n)) (sched (+ n 1)))
                  (= (sched 0) 16000000) (= (sched 9) 8192000000) (= (sched 10) 13192000000) (= (sched 14) 33192000000) (= (sched 15) 33192000000)
                  (=> (> n 14) (= (sched n) 33192000000)))))
