;;; block head
(define-sort Bytes () (Array Int Int))
; ix(o,k) = o+k: position of element k of a slice whose backing-array offset is o. Kept uninterpreted (with its defining
; axiom) so that quantified facts about slice elements have triggers without interpreted arithmetic.
(declare-fun ix (Int Int) Int)
(assert (forall ((o Int) (k Int)) (! (= (ix o k) (+ o k)) :pattern ((ix o k)))))

;;; block lcp
; longest common prefix of the byte ranges a[alo,ahi) and b[blo,bhi): given by its defining properties
; (AXIOM A9; conformance-tested against an executable reference in the thorough tier)
(declare-fun lcp (Bytes Int Int Bytes Int Int) Int)
(assert (forall ((a Bytes) (alo Int) (ahi Int) (b Bytes) (blo Int) (bhi Int))
  (! (let ((p (lcp a alo ahi b blo bhi)))
     (=> (and (<= alo ahi) (<= blo bhi))
      (and (<= 0 p) (<= (+ alo p) ahi) (<= (+ blo p) bhi)
       (forall ((j Int)) (! (=> (and (<= alo j) (< j (+ alo p))) (= (select a j) (select b (+ (- j alo) blo)))) :pattern ((select a j))))
       (forall ((j Int)) (! (=> (and (<= blo j) (< j (+ blo p))) (= (select b j) (select a (+ (- j blo) alo)))) :pattern ((select b j))))
       (=> (and (< (+ alo p) ahi) (< (+ blo p) bhi)) (not (= (select a (+ alo p)) (select b (+ blo p))))))))
   :pattern ((lcp a alo ahi b blo bhi)))))

;;; block lex
; lexicographic (bytes.Compare) order on byte ranges, quantifier-free on top of lcp
(define-fun lexlt ((a Bytes) (alo Int) (ahi Int) (b Bytes) (blo Int) (bhi Int)) Bool
  (let ((p (lcp a alo ahi b blo bhi)))
   (or (and (= (+ alo p) ahi) (< (+ blo p) bhi))
       (and (< (+ alo p) ahi) (< (+ blo p) bhi) (< (select a (+ alo p)) (select b (+ blo p)))))))
(define-fun lexeq ((a Bytes) (alo Int) (ahi Int) (b Bytes) (blo Int) (bhi Int)) Bool
  (let ((p (lcp a alo ahi b blo bhi))) (and (= (+ alo p) ahi) (= (+ blo p) bhi))))
(define-fun lexle ((a Bytes) (alo Int) (ahi Int) (b Bytes) (blo Int) (bhi Int)) Bool
  (or (lexlt a alo ahi b blo bhi) (lexeq a alo ahi b blo bhi)))

;;; block regionname
; region names  table,startkey,id : fcomma = index (relative to the slice) of the first comma, lcomma = of the last one.
; The two symbols are uninterpreted; wfName states what they have to satisfy, so nothing is assumed about them.
(declare-fun fcomma (Bytes Int Int) Int)
(declare-fun lcomma (Bytes Int Int) Int)
(define-fun wfName ((a Bytes) (lo Int) (hi Int)) Bool
  (let ((f (fcomma a lo hi)) (c (lcomma a lo hi)))
   (and (<= 0 f) (< f c) (< (+ lo c) hi) (= (select a (+ lo f)) 44) (= (select a (+ lo c)) 44)
        ; table part: bytes of the legal table-name alphabet [A-Za-z0-9_.:-] are all greater than ','
        (forall ((k Int)) (! (=> (and (<= lo k) (< k (+ lo f))) (> (select a k) 44)) :pattern ((select a k))))
        ; id part: no comma after the last comma
        (forall ((k Int)) (! (=> (and (< (+ lo c) k) (< k hi)) (not (= (select a k) 44))) :pattern ((select a k)))))))
; nameShape: what Compare needs in order not to panic - two different commas (first / last); nothing about the alphabet.
; wfName implies it. A name read from an hbase:meta row has to be checked for it before it may enter the location cache (C11).
(define-fun nameShape ((a Bytes) (lo Int) (hi Int)) Bool
  (let ((f (fcomma a lo hi)) (c (lcomma a lo hi)))
   (and (<= 0 f) (< f c) (< (+ lo c) hi) (= (select a (+ lo f)) 44) (= (select a (+ lo c)) 44)
        (forall ((k Int)) (! (=> (and (<= lo k) (< k (+ lo f))) (not (= (select a k) 44))) :pattern ((select a k))))
        (forall ((k Int)) (! (=> (and (< (+ lo c) k) (< k hi)) (not (= (select a k) 44))) :pattern ((select a k)))))))
; commasAt: the slice has commas at the two different absolute positions p < q.
(define-fun commasAt ((a Bytes) (lo Int) (hi Int) (p Int) (q Int)) Bool
  (and (<= lo p) (< p q) (< q hi) (= (select a p) 44) (= (select a q) 44)))
; AXIOM (first / last comma exist): a byte string with two different commas has a first and a last comma, and they are
; different - the intended meaning of fcomma / lcomma. This is the only statement assumed about the two symbols; it is what
; lets a run-time check ("two different commas") establish nameShape.
(assert (forall ((a Bytes) (lo Int) (hi Int) (p Int) (q Int))
  (! (=> (commasAt a lo hi p q) (nameShape a lo hi)) :pattern ((select a p) (select a q) (fcomma a lo hi)))))
; component-wise order: (table, start key, id) compared as byte strings -- the statement of C16
(define-fun cmp3lt ((a Bytes) (alo Int) (ahi Int) (b Bytes) (blo Int) (bhi Int)) Bool
  (let ((fa (+ alo (fcomma a alo ahi))) (ca (+ alo (lcomma a alo ahi))) (fb (+ blo (fcomma b blo bhi))) (cb (+ blo (lcomma b blo bhi))))
   (or (lexlt a alo fa b blo fb)
       (and (lexeq a alo fa b blo fb)
            (or (lexlt a (+ fa 1) ca b (+ fb 1) cb)
                (and (lexeq a (+ fa 1) ca b (+ fb 1) cb)
                     (lexlt a (+ ca 1) ahi b (+ cb 1) bhi)))))))
(define-fun cmp3eq ((a Bytes) (alo Int) (ahi Int) (b Bytes) (blo Int) (bhi Int)) Bool
  (let ((fa (+ alo (fcomma a alo ahi))) (ca (+ alo (lcomma a alo ahi))) (fb (+ blo (fcomma b blo bhi))) (cb (+ blo (lcomma b blo bhi))))
   (and (lexeq a alo fa b blo fb) (lexeq a (+ fa 1) ca b (+ fb 1) cb) (lexeq a (+ ca 1) ahi b (+ cb 1) bhi))))

;;; block bigendian
; big-endian value of the first 2/4/8 bytes of a byte range (hi is not used; callers guarantee the length)
(define-fun be16 ((a Bytes) (lo Int) (hi Int)) Int (+ (* 256 (select a (ix lo 0))) (select a (ix lo 1))))
(define-fun be32 ((a Bytes) (lo Int) (hi Int)) Int
  (+ (* 16777216 (select a (ix lo 0))) (* 65536 (select a (ix lo 1))) (* 256 (select a (ix lo 2))) (select a (ix lo 3))))
(define-fun be64 ((a Bytes) (lo Int) (hi Int)) Int
  (+ (* 72057594037927936 (select a (ix lo 0))) (* 281474976710656 (select a (ix lo 1))) (* 1099511627776 (select a (ix lo 2)))
     (* 4294967296 (select a (ix lo 3))) (* 16777216 (select a (ix lo 4))) (* 65536 (select a (ix lo 5))) (* 256 (select a (ix lo 6))) (select a (ix lo 7))))

;;; block keyvaluetypes
; HBase KeyValue.Type codes (Put 4, Delete 8, DeleteFamilyVersion 10, DeleteColumn 12, DeleteFamily 14) and the protobuf
; MutationProto.DeleteType they correspond to (DELETE_ONE_VERSION 0, DELETE_MULTIPLE_VERSIONS 1, DELETE_FAMILY 2,
; DELETE_FAMILY_VERSION 3) -- the table of HBase's ProtobufUtil.fromDeleteType / toDeleteType.
(define-fun kvTypeOfPbDelete ((d Int)) Int (ite (= d 0) 8 (ite (= d 1) 12 (ite (= d 2) 14 10))))
; the delete kind a mutation denotes: whole family (no qualifiers given) or listed columns; one version or all versions
(define-fun pbDeleteKind ((wholeFamily Bool) (oneVersion Bool)) Int (ite wholeFamily (ite oneVersion 3 2) (ite oneVersion 0 1)))
(define-fun kvTypeOfMutation ((isDelete Bool) (wholeFamily Bool) (oneVersion Bool)) Int
  (ite isDelete (kvTypeOfPbDelete (pbDeleteKind wholeFamily oneVersion)) 4))

;;; block backoff
; the back-off schedule of C17, in nanoseconds: 16 ms doubling while below 5 s, then +5 s while below 30 s, then constant
(define-fun sched ((n Int)) Int
  (ite (<= n 0) 16000000 (ite (= n 1) 32000000 (ite (= n 2) 64000000 (ite (= n 3) 128000000 (ite (= n 4) 256000000
  (ite (= n 5) 512000000 (ite (= n 6) 1024000000 (ite (= n 7) 2048000000 (ite (= n 8) 4096000000 (ite (= n 9) 8192000000
  (ite (= n 10) 13192000000 (ite (= n 11) 18192000000 (ite (= n 12) 23192000000 (ite (= n 13) 28192000000 33192000000)))))))))))))))
(define-fun schedNext ((b Int)) Int (ite (< b 5000000000) (* 2 b) (ite (< b 30000000000) (+ b 5000000000) b)))
(define-fun onSched ((b Int)) Bool
  (or (= b 16000000) (= b 32000000) (= b 64000000) (= b 128000000) (= b 256000000) (= b 512000000) (= b 1024000000) (= b 2048000000)
      (= b 4096000000) (= b 8192000000) (= b 13192000000) (= b 18192000000) (= b 23192000000) (= b 28192000000) (= b 33192000000)))

;;; block msum
; msum(w, s): the sum of w[k] over the (finite) set { k | s[k] = 1 }.  Sets are 0/1 arrays: map domains and the
; visited sets of map-range loops. Defining properties: empty set, adding one element, and extensionality (equal sets,
; summands equal on the set).
(declare-fun msum ((Array Int Int) (Array Int Int)) Int)
(assert (forall ((w (Array Int Int))) (! (= (msum w ((as const (Array Int Int)) 0)) 0) :pattern ((msum w ((as const (Array Int Int)) 0))))))
(assert (forall ((w (Array Int Int)) (s (Array Int Int)) (k Int))
  (! (=> (not (= (select s k) 1)) (= (msum w (store s k 1)) (+ (msum w s) (select w k)))) :pattern ((msum w (store s k 1))))))
(assert (forall ((w (Array Int Int)) (w2 (Array Int Int)) (s (Array Int Int)) (s2 (Array Int Int)))
  (! (=> (forall ((k Int)) (and (= (= (select s k) 1) (= (select s2 k) 1)) (=> (= (select s k) 1) (= (select w k) (select w2 k)))))
         (= (msum w s) (msum w2 s2)))
     :pattern ((msum w s) (msum w2 s2)))))
