#!/usr/bin/env python3
# Regenerates /verif/MANIFEST.json from the table below and the hook commits found in /repo.
import json, subprocess, sys
props=[json.loads(l)['id'] for l in open('/verif/properties.jsonl')]
CLAIMS = {
 "C16": ("Compare's postconditions are the property statement (sign of the result == component-wise byte order of table, start key, id; 0 iff all three components equal) proved for all well-formed names with loop invariants, no bound on length (the function's precondition is only the two-comma shape it needs not to panic; the order is stated for well-formed names); strict-total-order lemmas (irreflexive, transitive, trichotomous; first-region corollary) over the same spec functions",
         "trusted: own VC generator, SMT solvers, LCP axiom of the spec library; precondition = table bytes from the legal alphabet (all > ','), comma-free id suffix, as the statement quantifies",
         "DESIGN.md section 5, C16"),
 "C11": ("panic-freedom obligations (every index, slice, nil dereference, type assertion, make, explicit panic) and termination variants for every decoder on the path of received bytes: cellFromCellBlock, deserializeCellBlocks, Scan/Get/Mutate.DeserializeCellBlocks, multi.checkResponse/DeserializeCellBlocks/returnResults/get, client.receive (frame parsing), readN, readUint32, decompressCellblocks, infoFromCell, ParseRegionInfo, Increment; over fully symbolic buffers and message graphs with uint32 wrap-around modelled exactly; region.Compare / findCommaFromEnd never panic on names with two different commas, and a row of hbase:meta is accepted only if its row key has them (finding F19)",
         "trusted: own VC generator; assumed contracts of proto.Unmarshal (required fields present, no panic), protowire, io.ReadFull, snappy codec; invariant that a multi holds only *hrpc.Get/*hrpc.Mutate calls; memory exhaustion only as allocation-bound obligations; that every name held by the location cache has the two-comma shape is by construction, not discharged (the B-tree is abstract)",
         "DESIGN.md section 5, C11"),
}
NA = {
 "C13": "wall-clock promptness in every wait state under all schedules: contracts over sequential Go have no notion of time or of another goroutine's progress",
 "C19": "every clause orders Close against background goroutines (happens-before) or counts goroutines/connections at quiescence; not expressible as pre/postconditions",
}
extra = {}
try:
    extra = json.load(open('/verif/tools/claims_extra.json'))
except Exception:
    pass
for k,v in extra.get("claims",{}).items(): CLAIMS[k]=tuple(v)
for k,v in extra.get("na",{}).items(): NA[k]=v
hooks = subprocess.run(["git","-C","/repo","log","--format=%H","--grep=^verif:"],capture_output=True,text=True).stdout.split()
checks=[]
for p in props:
    if p in CLAIMS:
        text,note,ref=CLAIMS[p]
        checks.append({"property_id":p,"quick_cmd":f"./check {p} quick","thorough_cmd":f"./check {p} thorough","evidence_file":f"/verif/evidence/{p}.json",
          "replay_cmd_template":"./check replay {path}","engine":"gowp","level_claimed":{"category":"proof","text":text,"design_ref":ref},
          "level_note":note,"technique":"contract-based deductive verification: own weakest-precondition/symbolic VC generator over go/ast+go/types, contracts in tag-guarded comment files, obligations discharged by z3/cvc5"})
na=[{"property_id":p,"reason":NA.get(p,"contracts not yet written / not yet stable (build in progress); see DESIGN.md section 0")} for p in props if p not in CLAIMS]
m={"version":1,"setup_cmd":"cd /verif && ./check setup",
 "hooks":{"guard":"verif","enable":"contracts live in comment-only files /repo/<pkg>/zz_contracts_verif.go (//go:build verif); gowp loads /repo with -tags=verif; the tag changes no compiled code",
   "baseline_off_cmd":"for m in $(cat /w/out/gomods.txt); do MF=$(cd /repo/$m && . /w/out/goenv.sh && gomodflag); (cd /repo/$m && go test $MF -json -vet=off -count=1 -timeout 25m ./...); done",
   "source_commits":list(reversed(hooks)),"add_only":True},
 "engines":[{"name":"gowp","path":"/verif/gowp","serves_properties":sorted(CLAIMS),"kind_free_text":"own verification-condition generator (symbolic execution with invariant cuts) over go/ast+go/types for contracts kept in tag-guarded comment files; obligations discharged by z3 5.1.0 / z3 4.8.12 / cvc5 1.0.3; refutations replayed on the real code via go test -overlay"}],
 "checks":checks,
 "notes":"fix: commits in /repo repair genuine defects found by the checks; they are listed in /verif/known_findings.json (status fixed)",
 "not_applicable":na}
json.dump(m,open('/verif/MANIFEST.json','w'),indent=1)
print("claimed:",sorted(CLAIMS),"hooks:",len(hooks))
