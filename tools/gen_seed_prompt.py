#!/usr/bin/env python3
# gen_seed_prompt.py <round> <Cxx> : writes /tmp/seed<round>_prompt_<Cxx>.txt for a fresh sub-agent (seeding protocol of
# DESIGN.md 10.2). The agent gets only the property's text and the summaries of the earlier seeds for that property.
import json, sys, os, glob
rnd, pid = sys.argv[1], sys.argv[2]
prop = [json.loads(l) for l in open('/verif/properties.jsonl') if json.loads(l)['id'] == pid][0]
W = f"/tmp/seed{rnd}_{pid}"
q = prop['quantifier']; a = prop['anchors']
mech = "; ".join(f"{m['name']} @ {m['where']}" for m in a.get('mechanism', []))
earlier = []
ids = sorted([d for d in os.listdir('/verif/seeded') if d == pid or d.startswith(pid + '-')], key=lambda s: int(s.split('-')[1]) if '-' in s else 1)
for d in ids:
    try:
        earlier.append(json.load(open(f'/verif/seeded/{d}/meta.json'))['summary'].replace('\n', ' '))
    except Exception:
        pass
n = len(earlier)
words = {1: 'One earlier reviewer', 2: 'Two earlier reviewers', 3: 'Three earlier reviewers', 4: 'Four earlier reviewers', 5: 'Five earlier reviewers', 6: 'Six earlier reviewers', 7: 'Seven earlier reviewers', 8: 'Eight earlier reviewers'}
t = f"""You are helping to evaluate a verification effort for the Go project tsuna/gohbase (a pure-Go HBase client). You have your own scratch git worktree of the repository at {W} (work ONLY there; never touch /repo or /verif; do not read anything under /verif). The sandbox has no network: run Go with `export GOFLAGS=-mod=mod GOPROXY=off GOSUMDB=off GOTOOLCHAIN=local`.

Here is one semantic property the library is supposed to satisfy:

---
{pid}: {prop['title']}

STATEMENT: {prop['statement']}

QUANTIFIER ({','.join(q['over'])}): {q['text']}

WHY THE EXISTING TESTS CANNOT SETTLE IT: {prop['why_tests_cant']}

ANCHOR FILES: {', '.join(a.get('files', []))}
MECHANISMS: {mech}

---

Your task: produce ONE small, realistic change to the library's non-test source code (the kind of regression a maintainer could introduce by accident: an off-by-one, a dropped or reordered statement, a wrong comparison, a condition that is too weak or too strong, a forgotten reset, a wrong variable, a refactoring that moves a statement across a branch or a loop, a changed default, a helper reused where a slightly different one was needed, two sites that each look fine alone, ...) that BREAKS this property while
  (a) the project still compiles (`go build ./...`), and
  (b) the existing test suite still passes unchanged: `go test -vet=off -count=1 ./...` in the worktree root must pass (run it; the suite takes a few seconds), and
  (c) the breakage needs something specific to manifest - a particular input, an unusual but legal input shape, a particular interleaving, a fault at a particular point, a multi-step sequence, or a retry round that ordinary use and the existing tests do not reach - rather than failing on the first ordinary use.
Do not edit any *_test.go file of the repository and do not edit generated protobuf code (pb/).
"""
if n:
    t += f"\n{words.get(n, str(n) + ' earlier reviewers')} already tried the following changes for this property; yours must be in a DIFFERENT function or of a clearly different kind from all of them (do not reuse any of them or a trivial variant):\n"
    for i, e in enumerate(earlier):
        t += f"  {i+1}. {json.dumps(e)}\n"
    t += "Go through the property statement clause by clause and through the MECHANISMS list, and pick a clause or mechanism none of them touched; read the code paths the property depends on carefully, including helper functions, constructors, option handling and less obvious branches (error paths, boundary values, the second iteration of a loop, empty inputs, option combinations).\n"
t += f"""
Then write a demonstration that fails WITH your change and passes WITHOUT it: a new Go test file (package-internal test in the relevant package directory, named zz_seed_demo_test.go, test function name starting with TestSeedDemo) or a small program. The demonstration must be deterministic (or retry internally so that it fails reliably with the change). Verify both directions yourself: run the demo on the changed tree (must fail) and on the original tree (use `git diff > {W}/p.diff; git apply -R {W}/p.diff; ...; git apply {W}/p.diff` - NEVER `git stash`, the stash is shared between worktrees - must pass), and run the full existing suite on the changed tree (must pass; move the demo file aside or use -skip TestSeedDemo for that run).

Deliverables, all inside {W}/seed_out/ :
  - patch.diff : `git diff` of the library change only (NOT including the demo test file)
  - the demonstration file(s) (copy of zz_seed_demo_test.go, with a comment at the top saying in which package directory it goes)
  - meta.json : {{"property": "{pid}", "summary": "<what the change is>", "needs_to_manifest": "<the specific input / interleaving / fault / sequence needed>", "files_changed": [...], "demo_package_dir": "<dir>", "demo_run_cmd": "<command run in the worktree root>", "commands_run": ["..."], "results": {{"suite_with_change": "pass", "demo_with_change": "fail", "demo_without_change": "pass"}}}}
Do not put a go.mod into seed_out. Leave the worktree with the library change APPLIED and the demo test file in place. Finish by printing a 5-line summary. If after honest effort you cannot find a change that survives the existing tests, say so and explain what you tried (still write meta.json with "results": {{"found": false}}).
"""
open(f'/tmp/seed{rnd}_prompt_{pid}.txt', 'w').write(t)
print(f'/tmp/seed{rnd}_prompt_{pid}.txt', n, 'earlier')
