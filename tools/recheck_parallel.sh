#!/bin/bash
# recheck_parallel.sh <workers> [id...]: like recheck_seeds.sh, but on private scratch clones of /repo (one per worker,
# under /var/tmp, removed afterwards), so that several seeds are re-checked at once and /repo itself is not touched.
# Each seed's patch is applied to a clone at /repo's HEAD and only the seed's own property check is run against it
# (GOWP_REPO points the generator at the clone). Regression tool; the confirmation of a seed is verify_seed.sh.
set -u
N=${1:-3}; shift || true
cd /verif
ids="$@"; [ -z "$ids" ] && ids=$(ls seeded)
ids=$(echo $ids | tr ' ' '\n')
work() {
  w=$1; shift
  C=/var/tmp/rcp_clone.$$.$w; O=/var/tmp/rcp_out.$$.$w
  rm -rf $C; git clone -q ${RECHECK_SRC:-/repo} $C || exit 2
  for id in "$@"; do
    P=${id%%-*}
    git -C $C checkout -q -- . ; git -C $C clean -fdq
    if ! git -C $C apply /verif/seeded/$id/patch.diff 2>/dev/null; then echo "$id: patch does not apply"; continue; fi
    out=$(GOWP_REPO=$C GOWP_SCRATCH=$O bin/gowp $P quick 2>&1); st=$?
    if [ $st -eq 1 ]; then echo "$id: caught  $(echo "$out" | grep -E '^FAILED|^bounded-|^contract-binding' | head -1 | cut -c1-150)"; elif [ $st -eq 0 ]; then echo "$id: MISSED"; else echo "$id: tool failure (exit $st)"; fi
  done
  rm -rf $C $O
}
i=0
for w in $(seq 1 $N); do
  mine=$(echo "$ids" | awk -v n=$N -v w=$w 'NR % n == w % n')
  work $w $mine &
done
wait
