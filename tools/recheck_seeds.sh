#!/bin/bash
# recheck_seeds.sh [id...]: re-run only the property's own quick check against each kept seed (patch applied to /repo,
# then restored). Used after engine or contract changes; the full confirmation (suite, demonstration) is verify_seed.sh.
set -u
exec 9>/var/tmp/verify_seed.lock; flock 9
cd /verif
ids="$@"; [ -z "$ids" ] && ids=$(ls seeded)
[ -n "$(git -C /repo status --porcelain)" ] && { echo "/repo not clean"; exit 2; }
for id in $ids; do
  P=${id%%-*}
  if ! git -C /repo apply /verif/seeded/$id/patch.diff 2>/dev/null; then echo "$id: patch does not apply"; continue; fi
  out=$(GOWP_SCRATCH=/var/tmp/recheck.$$ ./check $P quick 2>&1); st=$?
  git -C /repo checkout -- .
  if [ $st -eq 1 ]; then echo "$id: caught  $(echo "$out" | grep -E '^FAILED|^bounded-|^contract-binding' | head -1 | cut -c1-150)"; elif [ $st -eq 0 ]; then echo "$id: MISSED"; else echo "$id: tool failure (exit $st)"; fi
done
rm -rf /var/tmp/recheck.$$
