#!/bin/bash
# runs every claimed check (quick by default) and prints one line each; exit 1 if any fails
cd "$(dirname "$0")/.."
tier="${1:-quick}"; rc=0
for p in $(python3 -c "import json;print(' '.join(c['property_id'] for c in json.load(open('MANIFEST.json'))['checks']))"); do
  out=$(./check $p $tier 2>&1); st=$?
  echo "$out" | tail -1
  if [ $st -ne 0 ]; then rc=1; echo "$out" | grep -E "^(FAILED|VIOLATION|KNOWN)" | head -10; fi
done
exit $rc
