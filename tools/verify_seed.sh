#!/bin/bash
# verify_seed.sh <Cxx> [srcdir]: confirm a seeded property-breaking change and run the checks against it.
#  1. copies <srcdir> (default /tmp/seed_<Cxx>/seed_out) to /verif/seeded/<Cxx>/ if given
#  2. in a scratch worktree of /repo (outside /repo and /verif, removed afterwards): build, existing suite with the
#     change (must pass), demonstration with the change (must fail), demonstration without the change (must pass)
#  3. applies the patch to /repo, runs `./check <Cxx> quick` (and every other claimed check), restores /repo
# Writes /verif/seeded/<Cxx>/verified.txt
set -u
# one run at a time: the script patches /repo while its checks run (do not edit /repo or run checks meanwhile)
exec 9>/var/tmp/verify_seed.lock; flock 9
export GOFLAGS=-mod=mod GOPROXY=off GOSUMDB=off GOTOOLCHAIN=local
P=$1; SRC=${2:-}; PROP=${P%%-*}
D=/verif/seeded/$P
mkdir -p $D
if [ -n "$SRC" ]; then cp $SRC/patch.diff $SRC/meta.json $D/; cp $SRC/*_test.go $D/ 2>/dev/null; fi
DEMO=$(ls $D/*_test.go | head -1)
PKGDIR=$(python3 -c "import json;print(json.load(open('$D/meta.json')).get('demo_package_dir','.'))")
W=$(mktemp -d /var/tmp/seedw.XXXXXX); rmdir $W
git -C /repo worktree add --detach $W HEAD >/dev/null 2>&1 || { echo "worktree failed"; exit 2; }
LOG=$D/verified.txt
{
echo "seed $P verified $(date -u +%FT%TZ) against /repo $(git -C /repo rev-parse --short HEAD)"
cd $W
git apply $D/patch.diff && echo "patch applies: yes" || echo "patch applies: NO"
go build ./... && echo "build with change: ok" || echo "build with change: FAIL"
if go test -vet=off -count=1 -timeout 20m ./... >/tmp/seed_suite.$$ 2>&1; then echo "existing suite with change: pass"; else echo "existing suite with change: FAIL"; grep -E "^(---|FAIL|panic)" /tmp/seed_suite.$$ | head; fi
rm -f /tmp/seed_suite.$$
cp $DEMO $W/$PKGDIR/zz_seed_demo_test.go
if go test -vet=off -count=1 -timeout 5m -run TestSeedDemo ./$PKGDIR/ >/tmp/seed_demo.$$ 2>&1; then echo "demonstration with change: PASSES (seed not demonstrated)"; else echo "demonstration with change: fails (as intended)"; grep -E "^\s*(---|panic:|\S+_test.go:[0-9]+:)" /tmp/seed_demo.$$ | head -6; fi
git apply -R $D/patch.diff
if go test -vet=off -count=1 -timeout 5m -run TestSeedDemo ./$PKGDIR/ >/tmp/seed_demo.$$ 2>&1; then echo "demonstration without change: passes"; else echo "demonstration without change: FAILS"; tail -5 /tmp/seed_demo.$$; fi
rm -f /tmp/seed_demo.$$
cd /verif
git -C /repo worktree remove --force $W
rm -rf $W
echo "--- checks with the patch applied to /repo"
if [ -n "$(git -C /repo status --porcelain)" ]; then echo "/repo not clean, skipping"; else
git -C /repo apply $D/patch.diff
for q in $(python3 -c "import json;print(' '.join(c['property_id'] for c in json.load(open('/verif/MANIFEST.json'))['checks']))"); do
  out=$(GOWP_SCRATCH=/var/tmp/seedout.$$ ./check $q quick 2>&1); st=$?
  if [ $st -ne 0 ]; then echo "$q: exit $st"; echo "$out" | grep -E "^(VIOLATION|KNOWN)" | head -4 | cut -c1-300; elif [ "$q" = "$PROP" ]; then echo "$q: exit 0 (MISSED)"; fi
done
git -C /repo checkout -- .
rm -rf /var/tmp/seedout.$$
fi
} 2>&1 | tee $LOG
