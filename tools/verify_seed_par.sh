#!/bin/bash
# verify_seed_par.sh <Cxx-n> <srcdir>: like verify_seed.sh, but the checks run against a private scratch clone of /repo
# (GOWP_REPO), so that several seeds can be confirmed at once and /repo itself is never patched. Used when a round has
# to be confirmed in little wall-clock time; the steps and the output format are those of verify_seed.sh.
set -u
export GOFLAGS=-mod=mod GOPROXY=off GOSUMDB=off GOTOOLCHAIN=local
P=$1; SRC=${2:-}; PROP=${P%%-*}
D=/verif/seeded/$P
mkdir -p $D
if [ -n "$SRC" ]; then cp $SRC/patch.diff $SRC/meta.json $D/; cp $SRC/*_test.go $D/ 2>/dev/null; fi
DEMO=$(ls $D/*_test.go | head -1)
PKGDIR=$(python3 -c "import json;print(json.load(open('$D/meta.json')).get('demo_package_dir','.'))")
W=/var/tmp/seedp.$P.$$; O=/var/tmp/seedpout.$P.$$
rm -rf $W; git clone -q /repo $W || { echo "clone failed"; exit 2; }
LOG=$D/verified.txt
{
echo "seed $P verified $(date -u +%FT%TZ) against a scratch clone of /repo $(git -C /repo rev-parse --short HEAD) (tools/verify_seed_par.sh)"
cd $W
git apply $D/patch.diff && echo "patch applies: yes" || echo "patch applies: NO"
go build ./... && echo "build with change: ok" || echo "build with change: FAIL"
if go test -vet=off -count=1 -timeout 20m ./... >$O.suite 2>&1; then echo "existing suite with change: pass"; else echo "existing suite with change: FAIL"; grep -E "^(---|FAIL|panic)" $O.suite | head; fi
rm -f $O.suite
cp $DEMO $W/$PKGDIR/zz_seed_demo_test.go
if go test -vet=off -count=1 -timeout 5m -run TestSeedDemo ./$PKGDIR/ >$O.demo 2>&1; then echo "demonstration with change: PASSES (seed not demonstrated)"; else echo "demonstration with change: fails (as intended)"; grep -E "^\s*(---|panic:|\S+_test.go:[0-9]+:)" $O.demo | head -6; fi
git apply -R $D/patch.diff
if go test -vet=off -count=1 -timeout 5m -run TestSeedDemo ./$PKGDIR/ >$O.demo 2>&1; then echo "demonstration without change: passes"; else echo "demonstration without change: FAILS"; tail -5 $O.demo; fi
rm -f $O.demo $W/$PKGDIR/zz_seed_demo_test.go
git apply $D/patch.diff
cd /verif
echo "--- checks with the patch applied to the clone"
order="$PROP $(python3 -c "import json;print(' '.join(c['property_id'] for c in json.load(open('/verif/MANIFEST.json'))['checks'] if c['property_id'] != '$PROP'))")"
for q in $order; do
  out=$(GOWP_REPO=$W GOWP_SCRATCH=$O bin/gowp $q quick 2>&1); st=$?
  if [ $st -ne 0 ]; then echo "$q: exit $st"; echo "$out" | grep -E "^(VIOLATION|KNOWN|FAILED)" | head -4 | cut -c1-300; elif [ "$q" = "$PROP" ]; then echo "$q: exit 0 (MISSED)"; fi
  [ "$q" = "$PROP" ] && [ $st -eq 1 ] && [ -z "${ALLCHECKS:-}" ] && break
done
rm -rf $W $O
} 2>&1 | tee $LOG
